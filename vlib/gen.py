"""Generators: instants and their renderings, text logs with unique tokens,
containers (gz / bz2 / xz / lz4 frame writer / tar).

Instants are integers: nanoseconds since the Unix epoch (UTC). Nothing here uses
the repository's code; renderings are done with integer arithmetic + calendar
conversion from the python stdlib.
"""
import bz2
import calendar
import gzip
import io
import lzma
import os
import struct
import tarfile
import zlib

NS = 1_000_000_000
MONTHS = ["Jan", "Feb", "Mar", "Apr", "May", "Jun", "Jul", "Aug", "Sep", "Oct", "Nov", "Dec"]
MONTHS_LONG = ["January", "February", "March", "April", "May", "June", "July", "August",
               "September", "October", "November", "December"]
DAYS = ["Mon", "Tue", "Wed", "Thu", "Fri", "Sat", "Sun"]
DAYS_LONG = ["Monday", "Tuesday", "Wednesday", "Thursday", "Friday", "Saturday", "Sunday"]


def civil(ns, off_min=0):
    """(Y, M, D, h, m, s, nanos, weekday Mon=0) of instant `ns` at UTC offset `off_min`."""
    secs, nanos = divmod(ns, NS)
    secs += off_min * 60
    days, rem = divmod(secs, 86400)
    h, rem = divmod(rem, 3600)
    mi, s = divmod(rem, 60)
    # days since 1970-01-01 -> civil date (Howard Hinnant's algorithm)
    z = days + 719468
    era = z // 146097
    doe = z - era * 146097
    yoe = (doe - doe // 1460 + doe // 36524 - doe // 146096) // 365
    y = yoe + era * 400
    doy = doe - (365 * yoe + yoe // 4 - yoe // 100)
    mp = (5 * doy + 2) // 153
    d = doy - (153 * mp + 2) // 5 + 1
    m = mp + 3 if mp < 10 else mp - 9
    if m <= 2:
        y += 1
    wd = (days + 3) % 7  # 1970-01-01 was a Thursday (Mon=0 -> 3)
    return y, m, d, h, mi, s, nanos, wd


def instant(y, mo, d, h=0, mi=0, s=0, nanos=0, off_min=0):
    """Instant (ns since epoch) of a civil time at UTC offset off_min."""
    return (calendar.timegm((y, mo, d, h, mi, s, 0, 0, 0)) - off_min * 60) * NS + nanos


def off_str(off_min, colon=True, z_for_zero=False):
    if z_for_zero and off_min == 0:
        return "Z"
    sign = "+" if off_min >= 0 else "-"
    a = abs(off_min)
    return "%s%02d%s%02d" % (sign, a // 60, ":" if colon else "", a % 60)


def frac_str(nanos, digits):
    if digits == 0:
        return ""
    return ("%09d" % nanos)[:digits]


def trunc(ns, digits):
    """Instant truncated to `digits` fractional digits (what a rendering keeps)."""
    unit = 10 ** (9 - digits)
    return ns - (ns % unit)


# notations used by the general text generator: name -> (render fn, has_zone, frac digits)
def _iso_space(ns, off):
    y, mo, d, h, mi, s, n, _ = civil(ns, off)
    return "%04d-%02d-%02d %02d:%02d:%02d" % (y, mo, d, h, mi, s)


def _iso_t_us_off(ns, off):
    y, mo, d, h, mi, s, n, _ = civil(ns, off)
    return "%04d-%02d-%02dT%02d:%02d:%02d.%s%s" % (y, mo, d, h, mi, s, frac_str(n, 6), off_str(off))


def _iso_space_ms_off(ns, off):
    y, mo, d, h, mi, s, n, _ = civil(ns, off)
    return "%04d-%02d-%02d %02d:%02d:%02d.%s %s" % (y, mo, d, h, mi, s, frac_str(n, 3), off_str(off, colon=False))


def _iso_t_z(ns, off):
    y, mo, d, h, mi, s, n, _ = civil(ns, 0)
    return "%04d-%02d-%02dT%02d:%02d:%02dZ" % (y, mo, d, h, mi, s)


def _compact(ns, off):
    y, mo, d, h, mi, s, n, _ = civil(ns, off)
    return "%04d%02d%02dT%02d%02d%02d" % (y, mo, d, h, mi, s)


def _iso_t_ns_off(ns, off):
    y, mo, d, h, mi, s, n, _ = civil(ns, off)
    return "%04d-%02d-%02dT%02d:%02d:%02d.%s%s" % (y, mo, d, h, mi, s, frac_str(n, 9), off_str(off))


def _iso_space_ns(ns, off):
    y, mo, d, h, mi, s, n, _ = civil(ns, off)
    return "%04d-%02d-%02d %02d:%02d:%02d.%s" % (y, mo, d, h, mi, s, frac_str(n, 9))


NOTATIONS = {
    # name: (fn, carries_zone, fractional_digits)
    "iso_space": (_iso_space, False, 0),
    "iso_t_us_off": (_iso_t_us_off, True, 6),
    "iso_space_ms_off": (_iso_space_ms_off, True, 3),
    "iso_t_z": (_iso_t_z, True, 0),
    "compact": (_compact, False, 0),
    "iso_t_ns_off": (_iso_t_ns_off, True, 9),
    "iso_space_ns": (_iso_space_ns, False, 9),
}


def render(ns, notation, off_min):
    return NOTATIONS[notation][0](ns, off_min)


def notation_resolution(notation):
    return NOTATIONS[notation][2]


# --------------------------------------------------------------------------
# text logs

SAFE_FILL = b"abcdefghijklmnopqrstuvwxyz ABCDEFGHIJKLMNOPQRSTUVWXYZ_-=,;!#%&()*+/<>?@[]^{}|~"


def filler(rng, n, klass="ascii"):
    """n bytes with no ASCII digits, no ':' and no newline (cannot look like a timestamp)."""
    if n <= 0:
        return b""
    if klass == "ascii":
        return bytes(rng.choice(SAFE_FILL) for _ in range(n))
    if klass == "nul":
        return bytes(rng.choice(b"ab\x00 \x00") for _ in range(n))
    if klass == "bin":
        alphabet = bytes(b for b in range(256) if b != 10 and not (48 <= b <= 58))
        return bytes(rng.choice(alphabet) for _ in range(n))
    if klass == "utf8":
        s = "".join(rng.choice("añ€æ日本語ü ") for _ in range(n))
        b = s.encode("utf-8")[:n]
        # may cut a multi-byte sequence: that is a legal hostile input (non-UTF-8 tail)
        return b + b"x" * (n - len(b))
    raise ValueError(klass)


class Msg:
    """One message: instant, bytes as stored in the file (incl. newlines), token."""
    __slots__ = ("ns", "data", "token", "src", "idx")

    def __init__(self, ns, data, token, src, idx):
        self.ns, self.data, self.token, self.src, self.idx = ns, data, token, src, idx


def make_msg(rng, src, idx, ns, notation="iso_space", off_min=0, ncont=0, body_len=None,
             cont_class="ascii", eol=b"\n", cont_len=None):
    token = ("S%dM%d" % (src, idx)).encode()
    head = render(ns, notation, off_min).encode() + b" " + token + b" "
    if body_len is None:
        body_len = rng.randint(0, 40)
    head += filler(rng, body_len) + eol
    data = head
    for _ in range(ncont):
        n = cont_len if cont_len is not None else rng.choice([0, 1, 2, 5, 17, 40, 80])
        data += filler(rng, n, cont_class) + eol
    return Msg(ns, data, token.decode(), src, idx)


def log_bytes(msgs, trailing_newline=True):
    b = b"".join(m.data for m in msgs)
    if not trailing_newline and b.endswith(b"\n"):
        b = b[:-1]
        if b.endswith(b"\r"):
            b = b[:-1]
    return b


# --------------------------------------------------------------------------
# xxh32 (for the lz4 frame writer)

_P1, _P2, _P3, _P4, _P5 = 2654435761, 2246822519, 3266489917, 668265263, 374761393
_M = 0xFFFFFFFF


def _rotl(x, r):
    return ((x << r) | (x >> (32 - r))) & _M


def xxh32(data, seed=0):
    n = len(data)
    i = 0
    if n >= 16:
        v1 = (seed + _P1 + _P2) & _M
        v2 = (seed + _P2) & _M
        v3 = seed & _M
        v4 = (seed - _P1) & _M
        while i <= n - 16:
            a, b, c, d = struct.unpack_from("<IIII", data, i)
            v1 = (_rotl((v1 + a * _P2) & _M, 13) * _P1) & _M
            v2 = (_rotl((v2 + b * _P2) & _M, 13) * _P1) & _M
            v3 = (_rotl((v3 + c * _P2) & _M, 13) * _P1) & _M
            v4 = (_rotl((v4 + d * _P2) & _M, 13) * _P1) & _M
            i += 16
        h = (_rotl(v1, 1) + _rotl(v2, 7) + _rotl(v3, 12) + _rotl(v4, 18)) & _M
    else:
        h = (seed + _P5) & _M
    h = (h + n) & _M
    while i <= n - 4:
        (k,) = struct.unpack_from("<I", data, i)
        h = (_rotl((h + k * _P3) & _M, 17) * _P4) & _M
        i += 4
    while i < n:
        h = (_rotl((h + data[i] * _P5) & _M, 11) * _P1) & _M
        i += 1
    h ^= h >> 15
    h = (h * _P2) & _M
    h ^= h >> 13
    h = (h * _P3) & _M
    h ^= h >> 16
    return h


def _lz4_literal_block(data):
    """A *compressed-format* lz4 block holding `data` as one literal run (valid:
    the last sequence of a block is literals only)."""
    n = len(data)
    out = bytearray()
    if n < 15:
        out.append(n << 4)
    else:
        out.append(0xF0)
        r = n - 15
        while r >= 255:
            out.append(255)
            r -= 255
        out.append(r)
    out += data
    return bytes(out)


def lz4_frame(data, split=65536, block_max=4, content_size=False, content_checksum=False,
              block_checksum=False, stored=True, independent=True):
    """Write an LZ4 frame (spec 1.6.x). `split` is the size of each data block
    (<= block maximum); blocks are either stored (uncompressed flag) or in the
    compressed format as a single literal run. block_max: 4=64K 5=256K 6=1M 7=4M."""
    bmax = {4: 65536, 5: 262144, 6: 1 << 20, 7: 4 << 20}[block_max]
    assert 1 <= split <= bmax
    flg = (1 << 6)  # version 01
    if independent:
        flg |= 1 << 5
    if block_checksum:
        flg |= 1 << 4
    if content_size:
        flg |= 1 << 3
    if content_checksum:
        flg |= 1 << 2
    bd = block_max << 4
    desc = bytes([flg, bd])
    if content_size:
        desc += struct.pack("<Q", len(data))
    hc = (xxh32(desc) >> 8) & 0xFF
    out = bytearray(struct.pack("<I", 0x184D2204) + desc + bytes([hc]))
    for i in range(0, len(data), split):
        chunk = data[i:i + split]
        blk = None if stored else _lz4_literal_block(chunk)
        if blk is None or len(blk) > bmax:
            # a block that does not fit the block maximum in compressed form is stored
            blk = chunk
            out += struct.pack("<I", len(blk) | 0x80000000)
        else:
            out += struct.pack("<I", len(blk))
        out += blk
        if block_checksum:
            out += struct.pack("<I", xxh32(blk))
    out += struct.pack("<I", 0)  # EndMark
    if content_checksum:
        out += struct.pack("<I", xxh32(data))
    return bytes(out)


# --------------------------------------------------------------------------
# other containers

def gz_bytes(data, level=6, mtime=0, fname=None, comment=None, extra=None, hcrc=False, stored=False):
    """gzip member written by hand around a raw deflate stream so that every
    header field can be chosen."""
    flg = 0
    if hcrc:
        flg |= 2
    if extra is not None:
        flg |= 4
    if fname is not None:
        flg |= 8
    if comment is not None:
        flg |= 16
    hdr = bytearray(b"\x1f\x8b\x08" + bytes([flg]) + struct.pack("<I", mtime & 0xFFFFFFFF) + b"\x00\x03")
    if extra is not None:
        hdr += struct.pack("<H", len(extra)) + extra
    if fname is not None:
        hdr += fname + b"\x00"
    if comment is not None:
        hdr += comment + b"\x00"
    if hcrc:
        hdr += struct.pack("<H", zlib.crc32(bytes(hdr)) & 0xFFFF)
    co = zlib.compressobj(0 if stored else level, zlib.DEFLATED, -15)
    body = co.compress(data) + co.flush()
    return bytes(hdr) + body + struct.pack("<II", zlib.crc32(data) & 0xFFFFFFFF, len(data) & 0xFFFFFFFF)


def bz2_bytes(data, level=9):
    return bz2.compress(data, level)


def xz_bytes(data, preset=6, check=lzma.CHECK_CRC64, dict_size=None):
    if dict_size:
        filters = [{"id": lzma.FILTER_LZMA2, "preset": preset, "dict_size": dict_size}]
        return lzma.compress(data, format=lzma.FORMAT_XZ, check=check, filters=filters)
    return lzma.compress(data, format=lzma.FORMAT_XZ, check=check, preset=preset)


def tar_bytes(members, fmt=tarfile.GNU_FORMAT, other_entries=False):
    """members: list of (name, data, mtime). Returns tar bytes. With other_entries the archive also holds what `tar -cf x.tar
    dir` puts there: a directory entry before each member's directory, and a symbolic-link and an empty-file entry."""
    bio = io.BytesIO()
    with tarfile.open(fileobj=bio, mode="w", format=fmt) as tf:
        seen = set()
        for k_, (name, data, mtime) in enumerate(members):
            if other_entries:
                dn = name.rsplit("/", 1)[0] if "/" in name else None
                if dn and dn not in seen:
                    seen.add(dn)
                    di = tarfile.TarInfo(dn)
                    di.type, di.mode, di.mtime = tarfile.DIRTYPE, 0o755, mtime
                    tf.addfile(di)
                if k_ == 0:
                    li = tarfile.TarInfo((dn + "/" if dn else "") + "current")
                    li.type, li.linkname, li.mtime = tarfile.SYMTYPE, "elsewhere.log", mtime
                    tf.addfile(li)
            ti = tarfile.TarInfo(name)
            ti.size = len(data)
            ti.mtime = mtime
            ti.mode = 0o644
            tf.addfile(ti, io.BytesIO(data))
    return bio.getvalue()


CODECS = ("gz", "bz2", "xz", "lz4")


def contain(data, codec, rng=None, mtime=0, **kw):
    if codec == "gz":
        return gz_bytes(data, mtime=mtime, **kw)
    if codec == "bz2":
        return bz2_bytes(data, **kw)
    if codec == "xz":
        return xz_bytes(data, **kw)
    if codec == "lz4":
        return lz4_frame(data, **kw)
    raise ValueError(codec)


def write(path, data, mtime=None):
    with open(path, "wb") as f:
        f.write(data)
    if mtime is not None:
        os.utime(path, (mtime, mtime))
    return path


def bz2_max_block_span(data):
    """-> (largest compressed block of a .bz2 stream in bytes (rounded up), level's block size in bytes).
    Block starts are found by scanning for the 48-bit block / end-of-stream magics at every bit offset."""
    if len(data) < 14 or data[:3] != b"BZh":
        return 0, 0
    limit = (data[3] - 0x30) * 100000
    big = int.from_bytes(data, "big")
    nbits = len(data) * 8
    pos = []
    for sh in range(8):
        # view of the stream shifted left by sh bits, byte aligned again
        v = (big << sh) & ((1 << nbits) - 1)
        b = v.to_bytes(len(data), "big")
        for magic in (b"\x31\x41\x59\x26\x53\x59", b"\x17\x72\x45\x38\x50\x90"):
            i = b.find(magic)
            while i >= 0:
                pos.append(i * 8 + sh)
                i = b.find(magic, i + 1)
    pos.sort()
    span = max((b - a for a, b in zip(pos, pos[1:])), default=0)
    return (span + 7) // 8, limit
