"""Offline checker of hook traces (src/verif.rs) against the protocol between the
file-processing workers and the printing thread.

Trace line: seq \\t mono_ns \\t tid \\t event \\t pathid \\t detail
The log is written under one mutex, so line order is a total order of the events
at their log points.

Specification replayed here (refutations listed in DESIGN.md section 4/C06):
  W1  each worker's sends match  FileInfo NewMessage* FileSummary?   (nothing after
      FileSummary; nothing but FileSummary after a NewMessage with last=1)
  W2  the k-th datum received from a source is the k-th datum that source sent
      (FIFO, no loss, no duplication) and is received after it was sent
  P1  no print before every initial source's FileInfo was received (fileinfo.all)
  P2  a print happens only when every live source has a pending message
  P3  the printed message is the (dt, pathid)-minimum of the pending set and is
      that source's pending message
  P4  no receive from a source that already has a pending message
  E1  at normal loop end: no pending message, no live source, prints == NewMessages
      received == NewMessages sent, every source disconnected exactly once
  H1  the hook's own view (poll live/pending) equals the replayed state
"""
import hashlib
import re

CAPACITY = 5


class TraceError(Exception):
    pass


def parse(path):
    evs = []
    with open(path, "rb") as f:
        for ln in f.read().decode("utf-8", "replace").splitlines():
            p = ln.split("\t")
            if len(p) < 6:
                continue
            try:
                evs.append((int(p[0]), int(p[1]), p[2], p[3], int(p[4]), p[5]))
            except ValueError:
                continue
    return evs


_NM = re.compile(r"NewMessage dt=(-?\d+) last=(\d)")
_POLL = re.compile(r"live=\[([^\]]*)\] pending=\[([^\]]*)\] fileinfo_outstanding=(\d+)")


def _ints(s):
    return [int(x) for x in s.replace(" ", "").split(",") if x]


class Verdict:
    def __init__(self):
        self.violations = []   # (rule, message)
        self.stats = {}
        self.ended = None      # loop.end reason
        self.interleaving = None
        self.print_order = []  # [(pathid, dt)]


def check(evs, expect_normal_end=True):
    v = Verdict()
    bad = v.violations.append
    seqs = [e[0] for e in evs]
    if seqs != list(range(len(seqs))):
        bad(("T0", "trace sequence numbers are not 0..n-1 (lost or reordered lines)"))
    sent = {}        # pathid -> list of detail strings (send.call order)
    sent_ret = {}    # pathid -> count of send.ret
    recvd = {}       # pathid -> count of recv
    wstate = {}      # pathid -> 'start'|'info'|'last'|'summary'
    live = None
    initial = None
    pending = {}
    fileinfo = set()
    fileinfo_all = False
    prints = 0
    nm_recv = 0
    disconnected = []
    coord = hashlib.sha1()
    max_occ = 0
    blocked_sends = 0
    ended = None
    summaries_recv = set()
    for seq, ns, tid, ev, pid, detail in evs:
        if ev == "worker.start":
            wstate.setdefault(pid, "start")
        elif ev == "send.call":
            st = wstate.get(pid, "start")
            kind = detail.split(" ")[0]
            if kind == "FileInfo":
                if st != "start":
                    bad(("W1", "source %d sent FileInfo in state %s" % (pid, st)))
                wstate[pid] = "info"
            elif kind == "NewMessage":
                if st != "info":
                    bad(("W1", "source %d sent NewMessage in state %s" % (pid, st)))
                m = _NM.match(detail)
                if m and m.group(2) == "1":
                    wstate[pid] = "last"
            elif kind == "FileSummary":
                if st not in ("info", "last"):
                    bad(("W1", "source %d sent FileSummary in state %s" % (pid, st)))
                wstate[pid] = "summary"
            occ = sent_ret.get(pid, 0) - recvd.get(pid, 0)
            if occ >= CAPACITY:
                blocked_sends += 1
            sent.setdefault(pid, []).append(detail)
        elif ev == "send.ret":
            sent_ret[pid] = sent_ret.get(pid, 0) + 1
            max_occ = max(max_occ, sent_ret[pid] - recvd.get(pid, 0))
        elif ev == "poll":
            m = _POLL.match(detail)
            if m:
                hl, hp = _ints(m.group(1)), _ints(m.group(2))
                if live is None:
                    live = set(hl)
                    initial = set(hl)
                if set(hl) != live:
                    bad(("H1", "poll live=%s but replayed live=%s" % (hl, sorted(live))))
                if set(hp) != set(pending):
                    bad(("H1", "poll pending=%s but replayed pending=%s" % (hp, sorted(pending))))
        elif ev == "recv":
            coord.update(("r%d%s;" % (pid, detail[:4])).encode())
            if live is None:
                bad(("T0", "recv before first poll"))
                live, initial = set(), set()
            k = recvd.get(pid, 0)
            recvd[pid] = k + 1
            if detail == "Err":
                if pid in pending:
                    bad(("P4", "recv Err from source %d which has a pending message" % pid))
                continue
            s = sent.get(pid, [])
            if k >= len(s):
                bad(("W2", "source %d: datum #%d received before it was sent" % (pid, k)))
            elif s[k] != detail:
                bad(("W2", "source %d: datum #%d received %r but sent %r" % (pid, k, detail, s[k])))
            kind = detail.split(" ")[0]
            if pid not in live:
                bad(("P4", "recv from source %d which is not live" % pid))
            if pid in pending:
                bad(("P4", "recv %s from source %d which already has a pending message" % (kind, pid)))
            if kind == "FileInfo":
                if pid in fileinfo:
                    bad(("W1", "second FileInfo received from %d" % pid))
                fileinfo.add(pid)
            elif kind == "NewMessage":
                m = _NM.match(detail)
                pending[pid] = (int(m.group(1)), m.group(2) == "1")
                nm_recv += 1
                if pid not in fileinfo:
                    bad(("W1", "NewMessage from %d before its FileInfo" % pid))
            elif kind == "FileSummary":
                summaries_recv.add(pid)
        elif ev == "fileinfo.all":
            if fileinfo_all:
                bad(("P1", "fileinfo.all reported twice"))
            fileinfo_all = True
            if initial is not None and fileinfo != initial:
                bad(("P1", "fileinfo.all while FileInfo outstanding for %s" % sorted(initial - fileinfo)))
        elif ev == "print":
            coord.update(("p%d;" % pid).encode())
            prints += 1
            m = re.match(r"dt=(-?\d+) last=(\d)", detail)
            dt, last = int(m.group(1)), m.group(2) == "1"
            v.print_order.append((pid, dt))
            if not fileinfo_all:
                bad(("P1", "print from %d before every FileInfo was received" % pid))
            if live is not None and set(pending) != live:
                bad(("P2", "print while live sources %s have no pending message" % sorted(live - set(pending))))
            if pid not in pending:
                bad(("P3", "print from %d which has no pending message" % pid))
            else:
                if pending[pid] != (dt, last):
                    bad(("P3", "printed (dt=%d,last=%s) but pending for %d is %s" % (dt, last, pid, pending[pid])))
                best = min((p[0], k) for k, p in pending.items())
                if best != (dt, pid):
                    bad(("P3", "printed (dt=%d, source %d) but the earliest pending is (dt=%d, source %d)" % (dt, pid, best[0], best[1])))
                del pending[pid]
        elif ev == "disconnect":
            disconnected.append(pid)
            if live is not None:
                if pid not in live:
                    bad(("E1", "disconnect of %d which is not live" % pid))
                live.discard(pid)
        elif ev == "loop.end":
            ended = detail.split(" ")[0]
        elif ev == "main.exit":
            pass
    v.ended = ended
    if ended is None and initial is None and not sent:
        # no source survived the pre-checks (all empty/missing): the loop is never entered
        v.ended = "nosources"
    elif ended is None:
        bad(("E1", "no loop.end event: the printing loop never finished"))
    elif ended == "normal":
        if pending:
            bad(("E1", "loop ended normally with pending messages from %s" % sorted(pending)))
        if live:
            bad(("E1", "loop ended normally with live sources %s" % sorted(live)))
        nm_sent = sum(1 for s in sent.values() for d in s if d.startswith("NewMessage"))
        if not (prints == nm_recv == nm_sent):
            bad(("E1", "prints=%d, NewMessages received=%d, sent=%d" % (prints, nm_recv, nm_sent)))
        if initial is not None and sorted(disconnected) != sorted(initial):
            bad(("E1", "disconnected %s but initial sources %s" % (sorted(disconnected), sorted(initial))))
        for pid in (initial or ()):
            if pid not in summaries_recv:
                bad(("E1", "source %d disconnected without its FileSummary being received" % pid))
    elif expect_normal_end:
        bad(("E1", "loop ended with reason %r" % ended))
    v.interleaving = coord.hexdigest()[:16]
    v.stats = {"events": len(evs), "prints": prints, "newmessages_received": nm_recv,
               "max_channel_occupancy": max_occ, "blocked_sends": blocked_sends,
               "sources": len(initial or ())}
    return v
