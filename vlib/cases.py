"""Multi-source cases with ground truth, shared by C01, C03, C06, C19.

A Source knows its messages (instant as s4 must see it, stored bytes) and how it
is written to disk (plain or container). The reference merge is computed from the
generator's own data only.
"""
import os
import re

from . import gen

TOKEN_RE = re.compile(rb"S(\d+)M(\d+)")


class Source:
    def __init__(self, sid, msgs, notation, tz_min, codec=None, trailing_newline=True, chrono=True):
        self.sid = sid
        self.msgs = msgs            # list of gen.Msg in file order; .ns already truncated to the rendering
        self.notation = notation
        self.codec = codec          # None | gz | bz2 | xz | lz4 | tar
        self.trailing_newline = trailing_newline
        self.chrono = chrono
        self.path = None
        self.arg = None             # what to pass on the command line

    def plain_bytes(self):
        return gen.log_bytes(self.msgs, self.trailing_newline)

    def write(self, d, rng, mtime=1_700_000_000):
        data = self.plain_bytes()
        base = "src%d" % self.sid
        if self.codec is None:
            self.path = gen.write(os.path.join(d, base + ".log"), data, mtime)
            self.arg = self.path
        elif self.codec == "tar":
            inner = base + ".log"
            tb = gen.tar_bytes([(inner, data, mtime)])
            self.path = gen.write(os.path.join(d, base + ".tar"), tb, mtime)
            self.arg = self.path
        else:
            kw = {}
            if self.codec == "lz4":
                # aligned splits only here (mis-aligned splits are C05's subject)
                kw = {"split": 65536, "stored": rng.random() < 0.5}
            self.path = gen.write(os.path.join(d, base + ".log." + self.codec),
                                  gen.contain(data, self.codec, mtime=mtime, **kw), mtime)
            self.arg = self.path
        return self.path

    def printed(self, i):
        """bytes s4 prints for message i of this source (final newline supplied)."""
        b = self.msgs[i].data
        if i == len(self.msgs) - 1 and not self.trailing_newline:
            b = gen.log_bytes([self.msgs[i]], False)
            if not b.endswith(b"\n"):
                b += b"\n"
        return b


def merge_model(sources, order, lo=None, hi=None):
    """Reference k-way merge. `order` is the list of sources in naming order (the
    index in it is the tie-break key). Each source is a FIFO of its messages in file
    order restricted to lo <= ns <= hi. Returns [(source, msg index)]."""
    heads = []
    for s in order:
        idxs = [i for i, m in enumerate(s.msgs)
                if (lo is None or m.ns >= lo) and (hi is None or m.ns <= hi)]
        heads.append(idxs)
    pos = [0] * len(order)
    out = []
    while True:
        best = None
        for k, s in enumerate(order):
            if pos[k] < len(heads[k]):
                ns = s.msgs[heads[k][pos[k]]].ns
                if best is None or ns < best[0]:
                    best = (ns, k)
        if best is None:
            break
        k = best[1]
        out.append((order[k], heads[k][pos[k]]))
        pos[k] += 1
    return out


def expected_stdout(merged):
    return b"".join(s.printed(i) for s, i in merged)


def tokens_of(out):
    return [(int(a), int(b)) for a, b in TOKEN_RE.findall(out)]


def gen_times(rng, n, t0, mode):
    """n instants (ns). Modes make ties and near-ties likely."""
    ts = []
    t = t0
    for _ in range(n):
        if mode == "ties":
            t += rng.choice([0, 0, 0, 1, 2]) * gen.NS
        elif mode == "subsec":
            t += rng.choice([0, 1_000, 1_000_000, 999_999_000, 500_000_000])
        elif mode == "subus":
            t += rng.choice([0, 1, 1, 7, 999, 1000, 1001])
        elif mode == "spread":
            t += rng.randint(0, 5000) * gen.NS + rng.choice([0, 0, 123_456_000])
        else:
            t += rng.randint(0, 3) * gen.NS
        ts.append(t)
    return ts


def make_source(rng, sid, n, t0, tz_min, mode=None, notation=None, codec=None,
                chrono=True, ncont_max=2, cont_class=None, body_len=None, trailing_newline=None, traces=0.0):
    mode = mode or rng.choice(["ties", "subsec", "subus", "spread", "dense"])
    if notation is None:
        notation = rng.choice(["iso_t_ns_off", "iso_space_ns"]) if mode == "subus" else rng.choice(
            ["iso_space", "iso_t_us_off", "iso_space_ms_off", "iso_t_z", "compact", "iso_t_ns_off", "iso_space_ns"])
    fn, zoned, digits = gen.NOTATIONS[notation]
    ts = gen_times(rng, n, t0, mode)
    if not chrono:
        rng.shuffle(ts)
    msgs = []
    for i, t in enumerate(ts):
        t = gen.trunc(t, digits)
        if zoned:
            off = rng.choice([0, 0, 60, -300, 330, 765, -570])
        else:
            off = tz_min
        cc = cont_class or rng.choice(["ascii", "ascii", "bin", "nul", "utf8"])
        eol = b"\r\n" if rng.random() < 0.1 else b"\n"
        if traces and rng.random() < traces:
            # a stack-trace like message: tens of continuation lines, several kB in all (more than the printer's staging buffer)
            msgs.append(gen.make_msg(rng, sid, i, t, notation, off, ncont=rng.randint(22, 60), cont_class="ascii", eol=eol, body_len=body_len,
                                     cont_len=rng.choice([60, 100, 140])))
            continue
        msgs.append(gen.make_msg(rng, sid, i, t, notation, off, ncont=rng.randint(0, ncont_max),
                                 cont_class=cc, eol=eol, body_len=body_len))
    if trailing_newline is None:
        trailing_newline = rng.random() < 0.8
    return Source(sid, msgs, notation, tz_min, codec, trailing_newline, chrono)


def tz_arg(tz_min):
    return "-t=" + gen.off_str(tz_min)


# --------------------------------------------------------------------------
# boundary-directed text logs (C02, C12, C05)

def aligned_log(rng, B, nmsgs, tz_min=0, notation=None, t0=None, first_inside=True,
                long_lines=True, cont_classes=("ascii", "bin", "nul", "utf8"), preamble=False, crlf=0.1):
    """Messages whose line ends / message starts / timestamp fields are steered to
    offsets k*B-1, k*B, k*B+1, with lines of B-1, B, B+1, 2B+1, 3B+1 bytes mixed in.
    Returns (preamble_bytes, [Msg]). If first_inside, the first timestamped line
    ends inside block zero (and for B >= 8096 the first three messages are short)."""
    notation = notation or rng.choice(["iso_space", "iso_t_us_off", "iso_space_ms_off", "compact", "iso_t_us_off", "iso_t_ns_off", "iso_space_ns"])
    fn, zoned, digits = gen.NOTATIONS[notation]
    t = t0 if t0 is not None else gen.instant(2023, rng.randint(1, 12), rng.randint(1, 28), rng.randint(0, 23), rng.randint(0, 59), 0)
    pre = b""
    if preamble:
        for _ in range(rng.randint(1, 3)):
            pre += gen.filler(rng, rng.randint(0, max(1, min(20, B // 8)))) + b"\n"
    pos = len(pre)
    msgs = []
    for i in range(nmsgs):
        t += rng.choice([0, 0, 1, 1, 2, 60]) * gen.NS + rng.choice([0, 0, 1000, 500_000_000])
        ti = gen.trunc(t, digits)
        off = rng.choice([0, 60, -300, 330]) if zoned else tz_min
        eol = b"\r\n" if rng.random() < crlf else b"\n"
        m0 = gen.make_msg(rng, 0, i, ti, notation, off, ncont=0, body_len=0, eol=eol)
        base = len(m0.data)            # head line with empty body
        goal = rng.choice(["end-1", "end0", "end+1", "len", "long", "rand", "rand", "next_ts_at_boundary", "next_ts_straddles", "next_ts_straddles"])
        early = first_inside and (i == 0 or (B >= 8096 and i < 3))
        if early:
            room = B - pos - base - 1
            body = rng.randint(0, max(0, min(room, 30))) if room > 0 else 0
        elif goal in ("end-1", "end0", "end+1", "next_ts_at_boundary", "next_ts_straddles"):
            # choose body so that (pos + base + body) % B == r  (offset one past the newline)
            # next_ts_straddles: a block edge falls k bytes into the next message's timestamp (date, time, fraction or zone)
            r = {"end-1": B - 1, "end0": 0, "end+1": 1, "next_ts_at_boundary": 0, "next_ts_straddles": B - rng.randint(1, max(1, base - 8))}[goal] % B
            body = (r - (pos + base)) % B
            if long_lines and rng.random() < 0.15:
                body += B * rng.randint(1, 2)
        elif goal == "len":
            want = rng.choice([B - 1, B, B + 1])
            body = max(0, want - base)
        elif goal == "long" and long_lines:
            body = max(0, rng.choice([2 * B + 1, 3 * B + 1, B + B // 2]) - base)
        else:
            body = rng.randint(0, 60)
        body = min(body, 400_000)
        ncont = rng.choice([0, 0, 0, 1, 2, 4])
        m = gen.make_msg(rng, 0, i, ti, notation, off, ncont=0, body_len=body, eol=eol)
        data = m.data
        for _ in range(ncont):
            g = rng.choice(["short", "short", "empty", "toboundary", "blocklen"]) if not early else rng.choice(["short", "empty"])
            if g == "empty":
                n = 0
            elif g == "toboundary":
                n = (rng.choice([B - 1, 0, 1]) - (pos + len(data) + len(eol))) % B
            elif g == "blocklen":
                n = rng.choice([B - 1, B, B + 1])
            else:
                n = rng.randint(1, 40)
            data += gen.filler(rng, min(n, 400_000), rng.choice(cont_classes)) + eol
        m.data = data
        msgs.append(m)
        pos += len(data)
    return pre, msgs


def blockzero_class(pre, msgs, B, trailing_newline=True):
    """Classify a text file against s4's documented-by-code block-zero admission
    heuristic (syslogprocessor.rs blockzero_analysis_*): returns None if the file
    is admitted by it, else the name of the known-finding class."""
    data = pre + gen.log_bytes(msgs, trailing_newline)
    if not msgs:
        return None
    block0 = data[:B]
    first_ts = len(pre)
    nl = data.find(b"\n", first_ts)
    end_first = nl if nl != -1 else len(data) - 1
    if end_first >= len(block0):
        return "first-timestamped-line-not-complete-in-block-zero"
    if len(block0) >= 8096:
        # needs 3 lines and 2 syslines found inside block zero
        offs, p = [], len(pre)
        for m in msgs:
            offs.append(p)
            p += len(m.data)
        # a sysline is 'found' in block zero when the head of the next one (or EOF) lies inside block zero
        complete = sum(1 for k, o in enumerate(offs)
                       if (offs[k + 1] if k + 1 < len(offs) else len(data)) <= len(block0) - 1 or
                       ((offs[k + 1] if k + 1 < len(offs) else len(data)) == len(data) and len(data) <= len(block0)))
        # the implementation counts the complete lines of block zero and also a last line that runs past the end of
        # block zero (or ends at the end of the file without a newline); calibrated on the unchanged tree: two short lines
        # followed by a 70 kB line are admitted, one short line followed by it is not
        lines = block0.count(b"\n") + (1 if not block0.endswith(b"\n") else 0)
        # the sysline pass only rejects when not even the first message is found (`found == 0`), and the first message is found
        # when the head line of the second one lies wholly inside block zero (calibrated: "msg, msg head, 70 kB continuation
        # line" is admitted, "msg of two lines, msg with a 70 kB head line" is not)
        if lines >= 3 and len(offs) > 1:
            e = data.find(b"\n", offs[1])
            if (e != -1 and e < len(block0)) or (e == -1 and len(data) <= len(block0)):
                return None
        if lines < 3 or complete < 2:
            return "fewer-than-min-lines-or-syslines-in-block-zero-of-8096+"
    return None
