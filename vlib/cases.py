"""Multi-source cases with ground truth, shared by C01, C03, C06, C19.

A Source knows its messages (instant as s4 must see it, stored bytes) and how it
is written to disk (plain or container). The reference merge is computed from the
generator's own data only.
"""
import os
import re

from . import gen

TOKEN_RE = re.compile(rb"S(\d+)M(\d+)")


class Source:
    def __init__(self, sid, msgs, notation, tz_min, codec=None, trailing_newline=True, chrono=True):
        self.sid = sid
        self.msgs = msgs            # list of gen.Msg in file order; .ns already truncated to the rendering
        self.notation = notation
        self.codec = codec          # None | gz | bz2 | xz | lz4 | tar
        self.trailing_newline = trailing_newline
        self.chrono = chrono
        self.path = None
        self.arg = None             # what to pass on the command line

    def plain_bytes(self):
        return gen.log_bytes(self.msgs, self.trailing_newline)

    def write(self, d, rng, mtime=1_700_000_000):
        data = self.plain_bytes()
        base = "src%d" % self.sid
        if self.codec is None:
            self.path = gen.write(os.path.join(d, base + ".log"), data, mtime)
            self.arg = self.path
        elif self.codec == "tar":
            inner = base + ".log"
            tb = gen.tar_bytes([(inner, data, mtime)])
            self.path = gen.write(os.path.join(d, base + ".tar"), tb, mtime)
            self.arg = self.path
        else:
            kw = {}
            if self.codec == "lz4":
                # aligned splits only here (mis-aligned splits are C05's subject)
                kw = {"split": 65536, "stored": rng.random() < 0.5}
            self.path = gen.write(os.path.join(d, base + ".log." + self.codec),
                                  gen.contain(data, self.codec, mtime=mtime, **kw), mtime)
            self.arg = self.path
        return self.path

    def printed(self, i):
        """bytes s4 prints for message i of this source (final newline supplied)."""
        b = self.msgs[i].data
        if i == len(self.msgs) - 1 and not self.trailing_newline:
            b = gen.log_bytes([self.msgs[i]], False)
            if not b.endswith(b"\n"):
                b += b"\n"
        return b


def merge_model(sources, order, lo=None, hi=None):
    """Reference k-way merge. `order` is the list of sources in naming order (the
    index in it is the tie-break key). Each source is a FIFO of its messages in file
    order restricted to lo <= ns <= hi. Returns [(source, msg index)]."""
    heads = []
    for s in order:
        idxs = [i for i, m in enumerate(s.msgs)
                if (lo is None or m.ns >= lo) and (hi is None or m.ns <= hi)]
        heads.append(idxs)
    pos = [0] * len(order)
    out = []
    while True:
        best = None
        for k, s in enumerate(order):
            if pos[k] < len(heads[k]):
                ns = s.msgs[heads[k][pos[k]]].ns
                if best is None or ns < best[0]:
                    best = (ns, k)
        if best is None:
            break
        k = best[1]
        out.append((order[k], heads[k][pos[k]]))
        pos[k] += 1
    return out


def expected_stdout(merged):
    return b"".join(s.printed(i) for s, i in merged)


def tokens_of(out):
    return [(int(a), int(b)) for a, b in TOKEN_RE.findall(out)]


def gen_times(rng, n, t0, mode):
    """n instants (ns). Modes make ties and near-ties likely."""
    ts = []
    t = t0
    for _ in range(n):
        if mode == "ties":
            t += rng.choice([0, 0, 0, 1, 2]) * gen.NS
        elif mode == "subsec":
            t += rng.choice([0, 1_000, 1_000_000, 999_999_000, 500_000_000])
        elif mode == "spread":
            t += rng.randint(0, 5000) * gen.NS + rng.choice([0, 0, 123_456_000])
        else:
            t += rng.randint(0, 3) * gen.NS
        ts.append(t)
    return ts


def make_source(rng, sid, n, t0, tz_min, mode=None, notation=None, codec=None,
                chrono=True, ncont_max=2, cont_class=None, body_len=None, trailing_newline=None):
    mode = mode or rng.choice(["ties", "subsec", "spread", "dense"])
    notation = notation or rng.choice(["iso_space", "iso_t_us_off", "iso_space_ms_off", "iso_t_z", "compact"])
    fn, zoned, digits = gen.NOTATIONS[notation]
    ts = gen_times(rng, n, t0, mode)
    if not chrono:
        rng.shuffle(ts)
    msgs = []
    for i, t in enumerate(ts):
        t = gen.trunc(t, digits)
        if zoned:
            off = rng.choice([0, 0, 60, -300, 330, 765, -570])
        else:
            off = tz_min
        cc = cont_class or rng.choice(["ascii", "ascii", "bin", "nul", "utf8"])
        eol = b"\r\n" if rng.random() < 0.1 else b"\n"
        msgs.append(gen.make_msg(rng, sid, i, t, notation, off, ncont=rng.randint(0, ncont_max),
                                 cont_class=cc, eol=eol, body_len=body_len))
    if trailing_newline is None:
        trailing_newline = rng.random() < 0.8
    return Source(sid, msgs, notation, tz_min, codec, trailing_newline, chrono)


def tz_arg(tz_min):
    return "-t=" + gen.off_str(tz_min)
