"""Fixed-struct (utmp/utmpx/lastlog/lastlogx/acct) record generator and printed-line parser.

An independent re-statement, in python `struct` terms, of the 16 C record layouts that s4
reads (the variants of its `FixedStructType` enum).  Nothing is imported from the repository.

How s4 picks a layout (what `Layout.filename` and `make_record` are tuned for)
  1. the file NAME (lower-cased, archive/other suffixes stripped) selects a family:
     utmp|wtmp|btmp -> Utmp, utmpx|wtmpx|btmpx -> Utmpx, lastlog, lastlogx, acct -> Acct,
     pacct -> AcctV3.  ("utx.log" has suffix "log" and is read as TEXT, so it is unusable.)
  2. every layout whose record size divides the FILE SIZE is a candidate; candidates of
     the named family get +15.
  3. each candidate is scored over its first 5 non-null records (printable strings, NUL
     termination, time in 2000..2038, zero padding, valid ut_type/ac_flag); the strictly
     highest maximum wins.  Candidates are visited in HashMap order, so a tie is decided
     at random: records made here always give the intended layout a clear margin.

     Known weak spot: with full_width=True every candidate sees long printable strings, so
     when the file size is also a multiple of a bigger utmpx layout that one can win
     (seen: 35 full-width records of 296 or 272 bytes = 37 x 280 -> Fs_Freebsd_x8664_Utmpx).
     Non-full-width records were chosen correctly for every count 1..13, 20, 35, 40, 64
     and every file name listed in the layout.
  4. records are then emitted in (tv_sec, tv_usec) order, one per distinct pair, and records
     whose pair is (0, 0) are skipped (see record_tv_pair); all-zero / all-0xFF records
     are never parsed.

Layouts that can not be selected
  Fs_Netbsd_x8664_Lastlogx is never put in the candidate set by s4 (`filesz_to_types` has
  no entry for it, and its `LASTLOGX_SZ_FO` constant is 32 instead of 432).  A file of such
  records named "lastlogx" is read as some other layout or rejected.  The layout is still
  described here (pack/parse work) and `Layout.selectable` is False.

Printed line format (`FixedStruct::as_bytes`), reproduced by `Layout.fmt`
  One text line per record: `name value` pairs separated by one space; char arrays inside
  single quotes (no escaping), numbers in decimal, ut_type as the glibc name for 0..11
  (else decimal), ac_flag as `0b` + binary (min 4 digits) + optional ` (AFORK|ASU|...)`,
  timeval as `sec.usec` (usec NOT zero padded), ac_etime (f32) in Rust `{}` form, ut_addr_v6
  as ` ut_addr a.b.c.d` (memory order) when words 1..3 are zero else
  ` ut_addr_v6 X:X:X:X` (upper hex of the 4 little-endian 32-bit words).  Quirks that are
  reproduced, not corrected: FreeBSD ut_line has no opening quote; numeric ut_session is
  quoted; NetBSD-32 ll_ss is unquoted and runs to the end of the line; FreeBSD ut_type is
  named by the glibc table.  char bytes >= 0x80 are printed as they are.  On stdout
  every record is followed by b"\\n\\0" (the terminating NUL is written too): use split_printed.

Fields compared (`parse_printed_line` == `expected_fields`)
  every field that s4 prints, i.e. every field of `Layout.fields` whose kind is not "pad",
  except: FreeBSD __ut_spare, Linux __glibc_reserved, Linux-acct ac_pad, NetBSD ut_pad and
  NetBSD-64 utmpx __gap1 / lastlogx ll_ss (never printed).  `Layout.printed` lists them.
  Normal form: "str"/"bytes" -> bytes up to the first NUL (full width when there is none);
  integers -> int; ut_type -> int; ac_flag -> int; f32 -> python float rounded through f32
  ("NaN" for NaN); ut_addr_v6 -> 16 raw bytes.
  Parsing anchors on the literal text between fields (non-greedy), so a string VALUE that
  itself contains the following separator (e.g. "' ut_id '") is mis-split; generated
  values never do.
"""
import collections
import re
import struct

Field = collections.namedtuple("Field", "name offset size kind")

_INT = {"i8": "b", "u8": "B", "i16": "h", "u16": "H", "comp_t": "H", "i32": "i", "u32": "I",
        "i64": "q", "u64": "Q", "f32": "f"}

UT_TYPE_NAMES = ("EMPTY", "RUN_LVL", "BOOT_TIME", "NEW_TIME", "OLD_TIME", "INIT_PROCESS",
                 "LOGIN_PROCESS", "USER_PROCESS", "DEAD_PROCESS", "ACCOUNTING", "SIGNATURE",
                 "DOWN_TIME")
AC_FLAGS = (("AFORK", 1), ("ASU", 2), ("ACOMPAT", 4), ("ACORE", 8), ("AXSIG", 16))
USER_PROCESS = 7


class Layout(object):
    """One record layout.  `fields` cover every byte (padding has kind "pad")."""

    def __init__(self, name, kind, size, filename, fields, time_sec, time_usec, fmt,
                 alt_filenames=(), selectable=True):
        self.name, self.kind, self.size, self.filename = name, kind, size, filename
        self.alt_filenames, self.selectable = tuple(alt_filenames), selectable
        self.fields = [Field(*f) for f in fields]
        self.time_sec, self.time_usec, self.fmt = time_sec, time_usec, fmt
        self.by_name = dict((f.name, f) for f in self.fields)
        self.regex, self.printed = _compile(fmt)
        at = 0
        for f in self.fields:  # self-check of the table: contiguous, complete
            assert f.offset == at, (name, f, at)
            assert f.kind in _INT and struct.calcsize("<" + _INT[f.kind]) == f.size \
                or f.kind in ("str", "bytes", "pad"), (name, f)
            at += f.size
        assert at == size, (name, at, size)
        assert all(n in self.by_name for n, _ in self.printed), name

    def __repr__(self):
        return "Layout(%s, %d bytes)" % (self.name, self.size)


# ---- printed-format templates: literal text with {field:code} placeholders ----
# codes: n number, s quoted-less raw bytes (non-greedy), r raw bytes to end of line,
#        T ut_type, F ac_flag, f f32, A ut_addr_v6 (includes its own " ut_addr..." label)
_CODE_RE = {
    "n": rb"(-?[0-9]+)", "s": rb"(.*?)", "r": rb"(.*)", "T": rb"([A-Z_]+|-?[0-9]+)",
    "F": rb"(0b[01]+(?: \([A-Z|]*\))?)", "f": rb"([-+0-9.eEinfNa]+)",
    "A": rb"( ut_addr [0-9]+\.[0-9]+\.[0-9]+\.[0-9]+| ut_addr_v6 [0-9A-F]+:[0-9A-F]+:[0-9A-F]+:[0-9A-F]+)",
}


def _compile(fmt):
    out, printed, at = [], [], 0
    for m in re.finditer(r"\{(\w+):(\w)\}", fmt):
        out.append(re.escape(fmt[at:m.start()].encode()))
        out.append(_CODE_RE[m.group(2)])
        printed.append((m.group(1), m.group(2)))
        at = m.end()
    out.append(re.escape(fmt[at:].encode()))
    return re.compile(rb"\A" + b"".join(out) + rb"\Z", re.S), printed


_UTMPX_LINUX = ("ut_type {ut_type:T} ut_pid {ut_pid:n} ut_line '{ut_line:s}' ut_id '{ut_id:s}'"
                " ut_user '{ut_user:s}' ut_host '{ut_host:s}' %s ut_session '{ut_session:n}'"
                " %s {ut_tv_sec:n}.{ut_tv_usec:n}{ut_addr_v6:A}")
_LASTLOG = "ll_time {ll_time:n} ll_line '{ll_line:s}' ll_host '{ll_host:s}'"
_UTMP = "ut_line '{ut_line:s}' ut_name '{ut_name:s}' ut_host '{ut_host:s}' ut_time {ut_time:n}"


def _nums(prefix, names):
    return " ".join("%s%s {%s%s:n}" % (prefix, n, prefix, n) for n in names.split())


_COMP_V2 = _nums("ac_", "utime stime etime mem io rw minflt majflt swaps")
_COMP_V3 = _nums("ac_", "utime stime mem io rw minflt majflt swaps")
_NB_UTMPX = ("ut_%s '{ut_%s:s}' ut_id '{ut_id:s}' ut_line '{ut_line:s}' ut_host '{ut_host:s}'"
             " ut_session '{ut_session:n}' ut_type {ut_type:T} ut_pid {ut_pid:n}"
             " e_termination {e_termination:n} e_exit {e_exit:n}%s ut_tv {ut_tv_sec:n}.{ut_tv_usec:n}")


def _lastlog(time_kind, tsz, line, host):
    return [("ll_time", 0, tsz, time_kind), ("ll_line", tsz, line, "str"),
            ("ll_host", tsz + line, host, "str")]


def _utmp(line, name, host):
    return [("ut_line", 0, line, "str"), ("ut_name", line, name, "str"),
            ("ut_host", line + name, host, "str"), ("ut_time", line + name + host, 8, "i64")]


def _nb_utmpx(user):
    return [(user, 0, 32, "str"), ("ut_id", 32, 4, "str"), ("ut_line", 36, 32, "str"),
            ("ut_host", 68, 256, "str"), ("ut_session", 324, 2, "u16"), ("ut_type", 326, 2, "u16"),
            ("ut_pid", 328, 4, "i32"), ("e_termination", 332, 2, "u16"), ("e_exit", 334, 2, "u16")]


def _linux_utmpx_head():
    return [("ut_type", 0, 2, "i16"), ("_pad0", 2, 2, "pad"), ("ut_pid", 4, 4, "i32"),
            ("ut_line", 8, 32, "str"), ("ut_id", 40, 4, "str"), ("ut_user", 44, 32, "str"),
            ("ut_host", 76, 256, "str")]


def _layouts():
    L = []
    L.append(Layout("Fs_Freebsd_x8664_Utmpx", "utmpx", 280, "utmpx", [
        ("ut_type", 0, 2, "i16"), ("__gap1", 2, 6, "pad"), ("ut_tv_sec", 8, 8, "i64"),
        ("ut_tv_usec", 16, 8, "i64"), ("ut_id", 24, 8, "str"), ("ut_pid", 32, 4, "i32"),
        ("ut_user", 36, 32, "str"), ("ut_line", 68, 16, "str"), ("ut_host", 84, 128, "str"),
        ("__ut_spare", 212, 64, "bytes"), ("_pad1", 276, 4, "pad")],
        "ut_tv_sec", "ut_tv_usec",
        "ut_type {ut_type:T} ut_tv {ut_tv_sec:n}.{ut_tv_usec:n} ut_id '{ut_id:s}' ut_pid {ut_pid:n}"
        " ut_user '{ut_user:s}' ut_line {ut_line:s}' ut_host '{ut_host:s}'",
        alt_filenames=("wtmpx", "btmpx")))
    L.append(Layout("Fs_Linux_Arm64Aarch64_Lastlog", "lastlog", 296, "lastlog",
                    _lastlog("i64", 8, 32, 256), "ll_time", None, _LASTLOG))
    L.append(Layout("Fs_Linux_Arm64Aarch64_Utmpx", "utmpx", 400, "wtmp", _linux_utmpx_head() + [
        ("ut_exit", 332, 4, "i32"), ("ut_session", 336, 8, "i64"), ("ut_tv_sec", 344, 8, "i64"),
        ("ut_tv_usec", 352, 8, "i64"), ("ut_addr_v6", 360, 16, "bytes"),
        ("__glibc_reserved", 376, 20, "bytes"), ("_pad1", 396, 4, "pad")],
        "ut_tv_sec", "ut_tv_usec", _UTMPX_LINUX % ("ut_exit {ut_exit:n}", "ut_tv"),
        alt_filenames=("utmp", "btmp", "utmpx", "wtmpx")))
    L.append(Layout("Fs_Linux_x86_Acct", "acct", 64, "acct", [
        ("ac_flag", 0, 1, "i8"), ("_pad0", 1, 1, "pad"), ("ac_uid", 2, 2, "u16"),
        ("ac_gid", 4, 2, "u16"), ("ac_tty", 6, 2, "u16"), ("ac_btime", 8, 4, "u32"),
        ("ac_utime", 12, 2, "comp_t"), ("ac_stime", 14, 2, "comp_t"), ("ac_etime", 16, 2, "comp_t"),
        ("ac_mem", 18, 2, "comp_t"), ("ac_io", 20, 2, "comp_t"), ("ac_rw", 22, 2, "comp_t"),
        ("ac_minflt", 24, 2, "comp_t"), ("ac_majflt", 26, 2, "comp_t"), ("ac_swaps", 28, 2, "comp_t"),
        ("_pad1", 30, 2, "pad"), ("ac_exitcode", 32, 4, "u32"), ("ac_comm", 36, 17, "str"),
        ("ac_pad", 53, 10, "bytes"), ("_pad2", 63, 1, "pad")],
        "ac_btime", None,
        "ac_flag {ac_flag:F} " + _nums("ac_", "uid gid tty btime") + " " + _COMP_V2
        + " ac_exitcode {ac_exitcode:n} ac_comm '{ac_comm:s}'"))
    L.append(Layout("Fs_Linux_x86_Acct_v3", "acct", 64, "pacct", [
        ("ac_flag", 0, 1, "i8"), ("ac_version", 1, 1, "i8"), ("ac_tty", 2, 2, "u16"),
        ("ac_exitcode", 4, 4, "u32"), ("ac_uid", 8, 4, "u32"), ("ac_gid", 12, 4, "u32"),
        ("ac_pid", 16, 4, "u32"), ("ac_ppid", 20, 4, "u32"), ("ac_btime", 24, 4, "u32"),
        ("ac_etime", 28, 4, "f32"), ("ac_utime", 32, 2, "comp_t"), ("ac_stime", 34, 2, "comp_t"),
        ("ac_mem", 36, 2, "comp_t"), ("ac_io", 38, 2, "comp_t"), ("ac_rw", 40, 2, "comp_t"),
        ("ac_minflt", 42, 2, "comp_t"), ("ac_majflt", 44, 2, "comp_t"), ("ac_swaps", 46, 2, "comp_t"),
        ("ac_comm", 48, 16, "str")],
        "ac_btime", None,
        "ac_flag {ac_flag:F} ac_version {ac_version:n} ac_tty {ac_tty:n} ac_exitcode {ac_exitcode:n}"
        " ac_uid {ac_uid:n} ac_gid {ac_gid:n} ac_pid {ac_pid:n} ac_ppid {ac_ppid:n}"
        " ac_btime {ac_btime:n} ac_etime {ac_etime:f} " + _COMP_V3 + " ac_comm '{ac_comm:s}'"))
    L.append(Layout("Fs_Linux_x86_Lastlog", "lastlog", 292, "lastlog",
                    _lastlog("i32", 4, 32, 256), "ll_time", None, _LASTLOG))
    L.append(Layout("Fs_Linux_x86_Utmpx", "utmpx", 384, "wtmp", _linux_utmpx_head() + [
        ("e_termination", 332, 2, "i16"), ("e_exit", 334, 2, "i16"), ("ut_session", 336, 4, "i32"),
        ("ut_tv_sec", 340, 4, "i32"), ("ut_tv_usec", 344, 4, "i32"),
        ("ut_addr_v6", 348, 16, "bytes"), ("__glibc_reserved", 364, 20, "bytes")],
        "ut_tv_sec", "ut_tv_usec",
        _UTMPX_LINUX % ("e_termination {e_termination:n} e_exit {e_exit:n}", "ut_xtime"),
        alt_filenames=("utmp", "btmp", "utmpx", "wtmpx")))
    L.append(Layout("Fs_Netbsd_x8632_Acct", "acct", 56, "acct", [
        ("ac_comm", 0, 16, "str"), ("ac_utime", 16, 2, "comp_t"), ("ac_stime", 18, 2, "comp_t"),
        ("ac_etime", 20, 2, "comp_t"), ("__gap1", 22, 2, "pad"), ("ac_btime", 24, 8, "i64"),
        ("ac_uid", 32, 4, "u32"), ("ac_gid", 36, 4, "u32"), ("ac_mem", 40, 2, "u16"),
        ("ac_io", 42, 2, "comp_t"), ("ac_tty", 44, 8, "i64"), ("ac_flag", 52, 1, "u8"),
        ("__gap3", 53, 3, "pad")],
        "ac_btime", None,
        "ac_comm '{ac_comm:s}' ac_utime {ac_utime:n} ac_stime {ac_stime:n} ac_etime {ac_etime:n}"
        " ac_btime {ac_btime:n} ac_uid {ac_uid:n} ac_gid {ac_gid:n} ac_mem {ac_mem:n}"
        " ac_io {ac_io:n} ac_tty {ac_tty:n} ac_flag {ac_flag:F}"))
    L.append(Layout("Fs_Netbsd_x8632_Lastlogx", "lastlogx", 428, "lastlogx", [
        ("ll_tv_sec", 0, 8, "i64"), ("ll_tv_usec", 8, 4, "i32"), ("ll_line", 12, 32, "str"),
        ("ll_host", 44, 256, "str"), ("ll_ss", 300, 128, "bytes")],
        "ll_tv_sec", "ll_tv_usec",
        "ll_tv {ll_tv_sec:n}.{ll_tv_usec:n} ll_line '{ll_line:s}' ll_host '{ll_host:s}' ll_ss {ll_ss:r}"))
    L.append(Layout("Fs_Netbsd_x8632_Utmpx", "utmpx", 516, "utmpx", _nb_utmpx("ut_name") + [
        ("ut_ss", 336, 128, "bytes"), ("ut_tv_sec", 464, 8, "i64"), ("ut_tv_usec", 472, 4, "i32"),
        ("ut_pad", 476, 40, "bytes")],
        "ut_tv_sec", "ut_tv_usec", _NB_UTMPX % ("name", "name", " ut_ss '{ut_ss:s}'"),
        alt_filenames=("wtmpx", "btmpx")))
    L.append(Layout("Fs_Netbsd_x8664_Lastlog", "lastlog", 32, "lastlog",
                    _lastlog("i64", 8, 8, 16), "ll_time", None, _LASTLOG))
    L.append(Layout("Fs_Netbsd_x8664_Lastlogx", "lastlogx", 432, "lastlogx", [
        ("ll_tv_sec", 0, 8, "i64"), ("ll_tv_usec", 8, 4, "i32"), ("_tvpad", 12, 4, "pad"),
        ("ll_line", 16, 32, "str"), ("ll_host", 48, 256, "str"), ("ll_ss", 304, 128, "bytes")],
        "ll_tv_sec", "ll_tv_usec",
        "ll_tv {ll_tv_sec:n}.{ll_tv_usec:n} ll_line '{ll_line:s}' ll_host '{ll_host:s}'",
        selectable=False))
    L.append(Layout("Fs_Netbsd_x8664_Utmp", "utmp", 40, "wtmp", _utmp(8, 8, 16),
                    "ut_time", None, _UTMP, alt_filenames=("utmp", "btmp")))
    L.append(Layout("Fs_Netbsd_x8664_Utmpx", "utmpx", 520, "utmpx", _nb_utmpx("ut_user") + [
        ("__gap1", 336, 128, "bytes"), ("ut_tv_sec", 464, 8, "i64"), ("ut_tv_usec", 472, 4, "i32"),
        ("_tvpad", 476, 4, "pad"), ("ut_pad", 480, 36, "bytes"), ("_pad1", 516, 4, "pad")],
        "ut_tv_sec", "ut_tv_usec", _NB_UTMPX % ("user", "user", ""),
        alt_filenames=("wtmpx", "btmpx")))
    L.append(Layout("Fs_Openbsd_x86_Lastlog", "lastlog", 272, "lastlog",
                    _lastlog("i64", 8, 8, 256), "ll_time", None, _LASTLOG))
    L.append(Layout("Fs_Openbsd_x86_Utmp", "utmp", 304, "wtmp", _utmp(8, 32, 256),
                    "ut_time", None, _UTMP, alt_filenames=("utmp", "btmp")))
    return collections.OrderedDict((l.name, l) for l in L)


LAYOUTS = _layouts()


# ---- packing ----

def _layout(layout):
    return LAYOUTS[layout] if isinstance(layout, str) else layout


def null_record(layout):
    return bytes(_layout(layout).size)


def pack(layout, values):
    """One record.  Unspecified fields are zero.  "str"/"bytes"/"pad" values are bytes of at
    most the field width (NUL padded; full width means no terminator); numbers must fit."""
    layout = _layout(layout)
    buf = bytearray(layout.size)
    for name, v in values.items():
        f = layout.by_name[name]
        if f.kind in _INT:
            struct.pack_into("<" + _INT[f.kind], buf, f.offset, v)
        else:
            v = bytes(v)
            if len(v) > f.size:
                raise ValueError("%s.%s: %d bytes > width %d" % (layout.name, name, len(v), f.size))
            buf[f.offset:f.offset + len(v)] = v
    return bytes(buf)


def unpack(layout, record):
    """Inverse of pack: every non-pad field -> raw value (bytes fields at full width)."""
    layout = _layout(layout)
    assert len(record) == layout.size
    out = {}
    for f in layout.fields:
        if f.kind in _INT:
            out[f.name] = struct.unpack_from("<" + _INT[f.kind], record, f.offset)[0]
        elif f.kind != "pad":
            out[f.name] = bytes(record[f.offset:f.offset + f.size])
    return out


def build_file(layout, records):
    layout = _layout(layout)
    records = list(records)
    assert all(len(r) == layout.size for r in records)
    return b"".join(records)


_FILL = b"abcdefghijklmnopqrstuvwxyz0123456789ABCDEFGHIJKLMNOPQRSTUVWXYZ"


def _ident(idx):
    """field name -> identity bytes of record idx, for every char-array field name."""
    return {"ut_user": b"u%d" % idx, "ut_name": b"u%d" % idx, "ut_line": b"pts/%d" % idx,
            "ll_line": b"pts/%d" % idx, "ut_host": b"h%d.example" % idx,
            "ll_host": b"h%d.example" % idx, "ut_id": b"%x" % (idx & 0xfff),
            "ac_comm": b"cmd%d" % idx}


def make_record(layout, idx, sec, usec=0, full_width=False, rng=None):
    """(record bytes, values dict) of a plausible record that carries `idx` in every field
    that can hold it.  Char arrays are NUL terminated (identity truncated to width-1 when
    it is too long, e.g. 8-byte ut_line and idx >= 1000) unless full_width, in which case
    they are filled to the full width with printable characters after the identity.
    With `rng` (random.Random) ut_type / ac_flag / address family are drawn from the valid
    sets instead of the fixed defaults; identity fields do not change."""
    layout = _layout(layout)
    v = {}
    for f in layout.fields:
        if f.kind == "str":
            ident = _ident(idx)[f.name]
            if full_width:
                v[f.name] = (ident + b"_" + _FILL * (f.size // len(_FILL) + 1))[:f.size]
            else:
                v[f.name] = ident[:f.size - 1]
    v[layout.time_sec] = sec
    if layout.time_usec:
        v[layout.time_usec] = usec
    names = layout.by_name
    if "ut_type" in names:
        v["ut_type"] = rng.choice((1, 2, 5, 6, 7, 8)) if rng else USER_PROCESS
        v["ut_pid"] = 1000 + idx
    if "ut_session" in names:
        v["ut_session"] = idx & 0x7fff
    if "ut_exit" in names:
        v["ut_exit"] = (idx * 3 + 1) & 0x7fff
    if "e_termination" in names:
        v["e_termination"] = (idx * 3 + 1) & 0x7fff
        v["e_exit"] = (idx * 5 + 2) & 0x7fff
    if "ut_addr_v6" in names:
        a = bytes((10, (idx >> 16) & 255, (idx >> 8) & 255, idx & 255))
        v["ut_addr_v6"] = a + (struct.pack("<3I", 0xfe80, idx + 1, 0x80000000 | idx)
                               if rng and rng.random() < 0.5 else bytes(12))
    for n in ("ll_ss", "ut_ss"):
        if n in names and layout.name.startswith("Fs_Netbsd_x8632"):
            v[n] = b"ss%d" % idx
    if layout.kind == "acct":
        wide = names["ac_uid"].size == 4
        v["ac_uid"] = (1000 + idx) & (0xffffffff if wide else 0xffff)
        v["ac_gid"] = (100 + idx) & (0xffffffff if wide else 0xffff)
        v["ac_tty"] = (0x8800 + idx) & 0xffff
        v["ac_flag"] = rng.choice((0, 1, 2, 3, 8, 16, 24, 31)) if rng else (0, 1, 2, 3, 8, 16)[idx % 6]
        k = 0
        for f in layout.fields:
            if f.kind == "comp_t" or f.name == "ac_mem":
                k += 1
                v[f.name] = (idx * 16 + k) & 0xffff
        if "ac_exitcode" in names:
            v["ac_exitcode"] = idx << 8
        if "ac_version" in names:
            v.update(ac_version=3, ac_pid=1000 + idx, ac_ppid=1 + idx // 2, ac_etime=idx + 0.5)
    return pack(layout, v), v


# ---- the printed side ----

def _f32(x):
    x = struct.unpack("<f", struct.pack("<f", x))[0]
    return "NaN" if x != x else x


def _cstr(raw, kind):
    raw = bytes(raw).split(b"\0", 1)[0]
    # (a string field's bytes are printed as they are, also those >= 0x80: the record's own value. An earlier version of
    # this table restated s4's former habit of printing them as NUL bytes.)
    return raw


def expected_fields(layout, values):
    """What parse_printed_line must return for a record packed from `values`."""
    layout = _layout(layout)
    full = unpack(layout, pack(layout, values))
    out = {}
    for name, code in layout.printed:
        f, x = layout.by_name[name], full[name]
        if code in "sr":
            out[name] = _cstr(x, f.kind)
        elif code == "f":
            out[name] = _f32(x)
        else:
            out[name] = x  # ints; ut_addr_v6 as its 16 raw bytes
    return out


def split_printed(out):
    """s4 stdout -> list of lines without terminators.  s4 writes every fixed-struct record
    as text + b"\\n\\0" (the NUL of `as_bytes` is printed too), so every line but the first
    starts with a stray NUL; that NUL is removed here (also accepts plain b"\\n")."""
    parts = bytes(out).split(b"\n")
    lines = [parts[0]] + [p[1:] if p.startswith(b"\0") else p for p in parts[1:]]
    if lines and lines[-1] == b"":
        lines.pop()
    return lines


def parse_printed_line(layout, line):
    """Field name -> value parsed from one undecorated printed line (one leading NUL, a
    trailing newline and a trailing NUL are ignored, see split_printed).  Raises ValueError
    when the line does not have the layout's shape."""
    layout = _layout(layout)
    line = bytes(line)
    if line.startswith(b"\0"):
        line = line[1:]
    if line.endswith(b"\0"):
        line = line[:-1]
    if line.endswith(b"\n"):
        line = line[:-1]
    m = layout.regex.match(line)
    if not m:
        raise ValueError("line does not match %s: %r" % (layout.name, line[:200]))
    out = {}
    for (name, code), txt in zip(layout.printed, m.groups()):
        f = layout.by_name[name]
        if code in "sr":
            out[name] = txt
        elif code == "n":
            out[name] = int(txt)
        elif code == "f":
            out[name] = _f32(float(txt.decode()))
        elif code == "T":
            out[name] = UT_TYPE_NAMES.index(txt.decode()) if txt[:1].isalpha() else int(txt)
        elif code == "F":
            bits = int(txt.split()[0][2:], 2)
            names = txt.split(b"(")[1].rstrip(b")").decode() if b"(" in txt else ""
            want = "|".join(n for n, b in AC_FLAGS if bits & b)
            if names != want or (b"(" in txt) != (bits != 0):
                raise ValueError("ac_flag text inconsistent: %r" % txt)
            out[name] = bits - 256 if f.kind == "i8" and bits >= 128 else bits
        elif code == "A":
            label, val = txt.split()
            if label == b"ut_addr":
                out[name] = bytes(int(o) for o in val.split(b".")) + bytes(12)
            else:
                out[name] = struct.pack("<4I", *(int(w, 16) for w in val.split(b":")))
    return out


def record_tv_pair(layout, values):
    """(tv_sec, tv_usec) as s4 reads them (usec 0 for seconds-only layouts).  s4 orders a
    file's records by this pair (not by file position), keeps only the LAST record of equal
    pairs, and skips every record whose pair is (0, 0) -- which is how null records vanish."""
    layout = _layout(layout)
    return (values.get(layout.time_sec, 0), values.get(layout.time_usec, 0) if layout.time_usec else 0)


def record_instant_ns(layout, values):
    """Nanoseconds since the epoch of the instant s4 assigns to the record: seconds plus
    microseconds*1000 when the layout has them.  As s4 does, the microseconds are dropped
    (instant = whole second) when negative, when usec*1000 overflows u32, or when the result
    is >= 1e9 ns -- except for a second ending a minute (sec % 60 == 59) where chrono takes
    1e9 <= ns < 2e9 as a leap second (printed as ":60"); that instant is returned as sec+ns."""
    sec, usec = record_tv_pair(layout, values)
    nsec = usec * 1000 if 0 <= usec and usec * 1000 <= 0xffffffff else 0
    if nsec >= 2_000_000_000 or (nsec >= 1_000_000_000 and sec % 60 != 59):
        nsec = 0
    return sec * 1_000_000_000 + nsec
