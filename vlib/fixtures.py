"""Shipped journal / evtx files of the repository, made available in plain form
(decompressing the shipped .gz where the plain file was emptied)."""
import gzip
import os
import shutil

from . import core

LOGS = os.path.join(core.REPO, "logs")
FIX = os.path.join(core.BUILD, "fixtures")

_JOURNALS = [
    ("opensuse15.journal", "OpenSUSE15/journal/f4e4621cbd954e73a519d0ca3e0d82c3/system@29912846da1c4d1d8d50dd155c553bdc-0000000000005156-00060c85794a2d40.journal", False),
    ("ubuntu16.journal", "Ubuntu16/6c6ab73d82464b9493892c81fc732b3a/system.journal", False),
    ("rhe91.journal", "programs/journal/RHE_91_system.journal.gz", True),
    ("ubuntu22x3.journal", "programs/journal/Ubuntu22-user-1000x3.journal.gz", True),
]
_EVTX = [
    ("kernelpnp.evtx", "programs/evtx/Microsoft-Windows-Kernel-PnP%4Configuration.evtx", False),
    ("noevents.evtx", "programs/evtx/NoEvents.evtx", False),
]


def _materialise(items):
    out = []
    with core._Lock("fixtures"):
        os.makedirs(FIX, exist_ok=True)
        for name, rel, gz in items:
            src = os.path.join(LOGS, rel)
            dst = os.path.join(FIX, name)
            if not os.path.exists(src) or os.path.getsize(src) == 0:
                continue
            if not os.path.exists(dst) or os.path.getmtime(dst) < os.path.getmtime(src):
                tmp = dst + ".tmp"
                if gz:
                    with gzip.open(src, "rb") as f, open(tmp, "wb") as g:
                        shutil.copyfileobj(f, g)
                else:
                    shutil.copyfile(src, tmp)
                os.replace(tmp, dst)
            out.append(dst)
    return out


def journals():
    return _materialise(_JOURNALS)


def evtxs():
    return _materialise(_EVTX)
