"""Core of the runtime-monitoring framework: builds, process runner, verdict
book-keeping, evidence and known-findings handling.

Verdicts are three-valued: a case *held*, is a *violation* (after it reproduced
on a solitary re-run when the check asks for that), or is *inconclusive*
(watchdog, tool failure, nothing observed). Inconclusive is never folded into the
other two.
"""
import concurrent.futures as cf
import fcntl
import hashlib
import json
import os
import random
import shutil
import signal
import subprocess
import sys
import time
import traceback

REPO = os.environ.get("VERIF_REPO", "/repo")
VERIF = os.path.dirname(os.path.dirname(os.path.abspath(__file__)))
# VERIF_BUILD / VERIF_OUT are only for tools/mutant_matrix.py (checking a scratch copy of the repository
# without touching /verif's own build cache, evidence and replay directories); the registered commands never set them
BUILD = os.environ.get("VERIF_BUILD", os.path.join(VERIF, ".build"))
OUT = os.environ.get("VERIF_OUT", VERIF)
NCPU = os.cpu_count() or 4

EXIT_OK, EXIT_VIOLATION, EXIT_HARNESS = 0, 1, 2


class HarnessError(Exception):
    """The machinery failed (build, tool, nothing observed): never a verdict."""


# --------------------------------------------------------------------------
# builds (always from /repo's current working tree; cargo decides what is stale)

_BASE_ENV = {
    "CARGO_NET_OFFLINE": "true",
    "CARGO_PROFILE_RELEASE_LTO": "false",
    "CARGO_PROFILE_RELEASE_CODEGEN_UNITS": "16",
    "CARGO_PROFILE_RELEASE_STRIP": "false",
    "CARGO_PROFILE_RELEASE_DEBUG": "1",
    "CARGO_TERM_COLOR": "never",
}


def _cargo(args, env_extra, cwd, log_name, timeout=3600):
    os.makedirs(BUILD, exist_ok=True)
    env = dict(os.environ)
    env.update(_BASE_ENV)
    env.update(env_extra)
    log = os.path.join(BUILD, log_name)
    with open(log, "wb") as f:
        try:
            p = subprocess.run(args, cwd=cwd, env=env, stdout=f, stderr=subprocess.STDOUT, timeout=timeout)
        except subprocess.TimeoutExpired:
            raise HarnessError("build timed out: %s (log %s)" % (" ".join(args), log))
    if p.returncode != 0:
        tail = open(log, "rb").read()[-3000:].decode("utf-8", "replace")
        raise HarnessError("build failed: %s\n%s" % (" ".join(args), tail))


class _Lock:
    def __init__(self, name):
        os.makedirs(BUILD, exist_ok=True)
        self.path = os.path.join(BUILD, name + ".lock")

    def __enter__(self):
        self.f = open(self.path, "w")
        fcntl.flock(self.f, fcntl.LOCK_EX)
        return self

    def __exit__(self, *a):
        fcntl.flock(self.f, fcntl.LOCK_UN)
        self.f.close()


_built = {}


def build_s4():
    """B1: hooked release binary of s4 (stable toolchain)."""
    if "s4" in _built:
        return _built["s4"]
    tgt = os.path.join(BUILD, "b1")
    with _Lock("b1"):
        _cargo(["cargo", "build", "--release", "--offline", "--bin", "s4"],
               {"RUSTFLAGS": "--cfg s4_verif", "CARGO_TARGET_DIR": tgt}, REPO, "b1.log")
    p = os.path.join(tgt, "release", "s4")
    if not os.path.exists(p):
        raise HarnessError("no binary at " + p)
    _built["s4"] = p
    return p


def build_asan():
    """B2: hooked AddressSanitizer build of s4 (nightly)."""
    if "asan" in _built:
        return _built["asan"]
    tgt = os.path.join(BUILD, "b2")
    with _Lock("b2"):
        _cargo(["cargo", "+nightly", "build", "--release", "--offline", "--bin", "s4",
                "--target", "x86_64-unknown-linux-gnu"],
               {"RUSTFLAGS": "-Zsanitizer=address -Cforce-frame-pointers=yes --cfg s4_verif",
                "CARGO_TARGET_DIR": tgt}, REPO, "b2.log")
    p = os.path.join(tgt, "x86_64-unknown-linux-gnu", "release", "s4")
    if not os.path.exists(p):
        raise HarnessError("no binary at " + p)
    _built["asan"] = p
    return p


def build_tsan():
    """B5: hooked ThreadSanitizer build of s4 (nightly, std rebuilt with the sanitizer)."""
    if "tsan" in _built:
        return _built["tsan"]
    tgt = os.path.join(BUILD, "b5")
    with _Lock("b5"):
        _cargo(["cargo", "+nightly", "build", "-Zbuild-std=std,panic_abort", "--release", "--offline", "--bin", "s4",
                "--target", "x86_64-unknown-linux-gnu"],
               {"RUSTFLAGS": "-Zsanitizer=thread --cfg s4_verif", "CARGO_TARGET_DIR": tgt}, REPO, "b5.log")
    p = os.path.join(tgt, "x86_64-unknown-linux-gnu", "release", "s4")
    if not os.path.exists(p):
        raise HarnessError("no binary at " + p)
    _built["tsan"] = p
    return p


def build_harness():
    """B3: the in-process harness `s4verif` (links /repo's s4lib with hooks)."""
    if "harness" in _built:
        return _built["harness"]
    hdir = os.path.join(VERIF, "harness")
    tgt = os.path.join(BUILD, "b3")
    if os.path.realpath(REPO) != "/repo":
        # scratch copy of the repository (tools/mutant_matrix.py): the crate's path dependency has to follow it
        src = hdir
        hdir = os.path.join(BUILD, "harness-src")
        shutil.rmtree(hdir, ignore_errors=True)
        shutil.copytree(src, hdir, ignore=shutil.ignore_patterns("target", "Cargo.lock"))
        ct = open(os.path.join(hdir, "Cargo.toml")).read().replace('path = "/repo"', 'path = "%s"' % REPO)
        open(os.path.join(hdir, "Cargo.toml"), "w").write(ct)
    lock_src = os.path.join(REPO, "Cargo.lock")
    lock_dst = os.path.join(hdir, "Cargo.lock")
    with _Lock("b3"):
        if os.path.exists(lock_src) and not os.path.exists(lock_dst):
            shutil.copyfile(lock_src, lock_dst)
        _cargo(["cargo", "build", "--release", "--offline"],
               {"RUSTFLAGS": "--cfg s4_verif", "CARGO_TARGET_DIR": tgt}, hdir, "b3.log")
    p = os.path.join(tgt, "release", "s4verif")
    if not os.path.exists(p):
        raise HarnessError("no binary at " + p)
    _built["harness"] = p
    return p


def miri_cmd():
    """B4: (argv prefix, env, cwd) to run the Miri harness `s4miri` (nightly `cargo miri run`, offline, release profile:
    the properties are about the released code paths, debug builds add debug-only assertions and traces)."""
    hdir = os.path.join(VERIF, "harness-miri")
    tgt = os.path.join(BUILD, "b4")
    if os.path.realpath(REPO) != "/repo":
        src = hdir
        hdir = os.path.join(BUILD, "harness-miri-src")
        if "miri" not in _built:
            shutil.rmtree(hdir, ignore_errors=True)
            shutil.copytree(src, hdir, ignore=shutil.ignore_patterns("target", "Cargo.lock"))
            ct = open(os.path.join(hdir, "Cargo.toml")).read().replace('path = "/repo"', 'path = "%s"' % REPO)
            open(os.path.join(hdir, "Cargo.toml"), "w").write(ct)
    lock_src = os.path.join(REPO, "Cargo.lock")
    lock_dst = os.path.join(hdir, "Cargo.lock")
    if os.path.exists(lock_src) and not os.path.exists(lock_dst):
        shutil.copyfile(lock_src, lock_dst)
    env = dict(os.environ)
    env.update({"CARGO_NET_OFFLINE": "true", "CARGO_TARGET_DIR": tgt, "MIRIFLAGS": "-Zmiri-disable-isolation", "CARGO_TERM_COLOR": "never"})
    argv = ["cargo", "+nightly", "miri", "run", "--release", "--offline", "-q", "--"]
    if "miri" not in _built:
        # first invocation compiles the crate graph for the interpreter (about 80 s cold); do it once, serially
        with _Lock("b4"):
            p = subprocess.run(argv + ["decode", "0", "0", "1", "nul"], cwd=hdir, env=env, stdout=subprocess.PIPE, stderr=subprocess.PIPE, timeout=3600)
        if p.returncode != 0 and b"Undefined Behavior" not in p.stderr:
            raise HarnessError("miri harness does not build/run: %s" % p.stderr[-2000:].decode("utf-8", "replace"))
        _built["miri"] = True
    return argv, env, hdir


# --------------------------------------------------------------------------
# running processes

class Result:
    __slots__ = ("rc", "out", "err", "timed_out", "wall", "argv", "env")

    def __init__(self, rc, out, err, timed_out, wall, argv, env):
        self.rc, self.out, self.err, self.timed_out, self.wall = rc, out, err, timed_out, wall
        self.argv, self.env = argv, env

    @property
    def signaled(self):
        return self.rc is not None and self.rc < 0


def base_env(tz="UTC", tmpdir=None, extra=None):
    env = {
        "PATH": "/usr/local/bin:/usr/bin:/bin",
        "LC_ALL": "C",
        "TZ": tz,
        "HOME": "/nonexistent",
    }
    if tmpdir:
        env["TMPDIR"] = tmpdir
    if extra:
        env.update(extra)
    return env


def run(argv, env=None, stdin=None, timeout=120, cwd=None):
    """Run a process to completion. A timeout kills the whole process group and
    is reported as timed_out (inconclusive unless the check proves a hang)."""
    if env is None:
        env = base_env()
    t0 = time.monotonic()
    p = subprocess.Popen(argv, env=env, cwd=cwd,
                         stdin=subprocess.PIPE if stdin is not None else subprocess.DEVNULL,
                         stdout=subprocess.PIPE, stderr=subprocess.PIPE, start_new_session=True)
    try:
        out, err = p.communicate(stdin, timeout=timeout)
        to = False
    except subprocess.TimeoutExpired:
        try:
            os.killpg(p.pid, signal.SIGKILL)
        except ProcessLookupError:
            pass
        out, err = p.communicate()
        to = True
    return Result(p.returncode, out, err, to, time.monotonic() - t0, list(argv), dict(env))


def pmap(fn, items, workers=None):
    """Thread pool map preserving order; used where the work is a subprocess."""
    workers = workers or NCPU
    with cf.ThreadPoolExecutor(max_workers=workers) as ex:
        return list(ex.map(fn, items))


def pmap_proc(fn, items, workers=None, chunksize=1):
    """Process pool map (fork) for python-heavy case generation + checking."""
    workers = workers or NCPU
    import multiprocessing as mp
    ctx = mp.get_context("fork")
    with cf.ProcessPoolExecutor(max_workers=workers, mp_context=ctx) as ex:
        return list(ex.map(fn, items, chunksize=chunksize))


# --------------------------------------------------------------------------
# known findings

def load_known():
    p = os.path.join(VERIF, "known_findings.json")
    if not os.path.exists(p):
        return []
    with open(p) as f:
        return json.load(f).get("findings", [])


# --------------------------------------------------------------------------
# check context

def _jsonable(x, depth=0):
    if isinstance(x, bytes):
        if len(x) > 400:
            return {"bytes_len": len(x), "head": x[:200].decode("latin-1"), "sha1": hashlib.sha1(x).hexdigest()}
        return x.decode("latin-1")
    if isinstance(x, dict):
        return {str(k): _jsonable(v, depth + 1) for k, v in x.items()}
    if isinstance(x, (list, tuple, set)):
        return [_jsonable(v, depth + 1) for v in x]
    if isinstance(x, (int, float, str, bool)) or x is None:
        return x
    return repr(x)


class Ctx:
    """Book-keeping for one run of one check."""

    def __init__(self, pid, tier, seed, level="exploration"):
        self.pid, self.tier, self.seed, self.level = pid, tier, seed, level
        self.rng = random.Random((seed << 8) ^ int(hashlib.sha1(pid.encode()).hexdigest()[:8], 16))
        self.t0 = time.monotonic()
        self.work = os.path.join(BUILD, "work", "%s-%s-%d" % (pid, tier, os.getpid()))
        shutil.rmtree(self.work, ignore_errors=True)
        os.makedirs(self.work)
        self.replay_root = os.path.join(OUT, "replay", pid)
        shutil.rmtree(self.replay_root, ignore_errors=True)
        self.evaluations = 0
        self.distinct = set()
        self.samples = []
        self.violations = []      # (signature, what, replay_dir)
        self.known_hits = {}      # signature -> count
        self.inconclusive = 0
        self.inconclusive_why = {}
        self.counters = {}
        self.rule = ""
        self.assumptions = []
        self.extra = {}
        self.known = [k for k in load_known() if k.get("property") == pid]
        self._case_n = 0

    @property
    def quick(self):
        return self.tier == "quick"

    def pick(self, quick, thorough):
        return quick if self.quick else thorough

    def casedir(self, name=None):
        self._case_n += 1
        d = os.path.join(self.work, name or ("c%06d" % self._case_n))
        os.makedirs(d, exist_ok=True)
        return d

    def count(self, key, n=1):
        self.counters[key] = self.counters.get(key, 0) + n

    def evaluated(self, n=1, klass=None):
        """n executions observed; klass identifies a distinct non-trivial case."""
        self.evaluations += n
        if klass is not None:
            self.distinct.add(klass if isinstance(klass, (str, int, tuple)) else repr(klass))

    def sample(self, obj, cap=6):
        if len(self.samples) < cap:
            self.samples.append(_jsonable(obj))

    def inconc(self, why):
        self.inconclusive += 1
        self.inconclusive_why[why] = self.inconclusive_why.get(why, 0) + 1

    def violation(self, signature, what, files=None, info=None, src_dir=None):
        """Record a violation. If `signature` is listed as a known finding (status
        known) it is counted as a known-finding hit, otherwise a replay directory
        is written and the run will exit 1."""
        for k in self.known:
            if k.get("status") == "known" and k.get("signature") == signature:
                self.known_hits[signature] = self.known_hits.get(signature, 0) + 1
                return False
        n = len(self.violations)
        same = sum(1 for v in self.violations if v[0] == signature and v[2] is not None)
        saved = sum(1 for v in self.violations if v[2] is not None)
        if same >= 3 or saved >= 40:
            # already witnessed: count it, keep the disk for new signatures
            self.violations.append((signature, what, None))
            return True
        d = os.path.join(self.replay_root, "%s-s%d-%03d" % (self.tier, self.seed, n))
        shutil.rmtree(d, ignore_errors=True)
        os.makedirs(d, exist_ok=True)
        if src_dir and os.path.isdir(src_dir):
            try:
                shutil.copytree(src_dir, os.path.join(d, "case"), symlinks=True)
            except Exception:
                pass
        for name, data in (files or {}).items():
            with open(os.path.join(d, name), "wb") as f:
                f.write(data if isinstance(data, bytes) else str(data).encode())
        with open(os.path.join(d, "violation.json"), "w") as f:
            json.dump({"property": self.pid, "signature": signature, "what": what,
                       "seed": self.seed, "tier": self.tier, "info": _jsonable(info)}, f, indent=1)
        self.violations.append((signature, what, d))
        return True

    # ----------------------------------------------------------------------
    def finish(self):
        wall = time.monotonic() - self.t0
        cov = {
            "evaluations": int(self.evaluations),
            "distinct_nontrivial": len(self.distinct),
            "rule": self.rule,
            "samples": self.samples[:8],
            "inconclusive": self.inconclusive,
            "inconclusive_why": self.inconclusive_why,
            "counters": dict(sorted(self.counters.items())),
            "known_finding_hits": self.known_hits,
            "violation_signatures": sorted({v[0] for v in self.violations})[:50],
        }
        cov.update(_jsonable(self.extra))
        ev = {
            "property_id": self.pid, "tier": self.tier, "seed": int(self.seed), "level": self.level,
            "coverage": cov, "assumptions": self.assumptions, "wall_s": round(wall, 2),
            "violations": len(self.violations),
        }
        os.makedirs(os.path.join(OUT, "evidence"), exist_ok=True)
        tmp = os.path.join(OUT, "evidence", ".%s.json.tmp" % self.pid)
        with open(tmp, "w") as f:
            json.dump(ev, f, indent=1, sort_keys=True)
            f.write("\n")
        os.replace(tmp, os.path.join(OUT, "evidence", "%s.json" % self.pid))
        shutil.rmtree(self.work, ignore_errors=True)

        for k in self.known:
            if k.get("status") == "known" and self.known_hits.get(k["signature"]):
                print("KNOWN-FINDING: property=%s %s [signature %s, reproduced %d times]" % (
                    self.pid, k.get("what", ""), k["signature"], self.known_hits[k["signature"]]))
        seen = set()
        for sig, what, d in self.violations:
            if sig in seen or d is None:
                continue
            seen.add(sig)
            print("VIOLATION property=%s replay=%s" % (self.pid, d))
            print("  signature: %s\n  what: %s" % (sig, what))
        print("%s %s seed=%d: evaluations=%d distinct_nontrivial=%d violations=%d known_hits=%d inconclusive=%d wall=%.1fs" % (
            self.pid, self.tier, self.seed, self.evaluations, len(self.distinct), len(self.violations),
            sum(self.known_hits.values()), self.inconclusive, wall))
        for k, v in sorted(self.counters.items()):
            print("  %-40s %s" % (k, v))
        if self.violations:
            return EXIT_VIOLATION
        if self.evaluations == 0 or len(self.distinct) < 2:
            print("HARNESS: nothing non-trivial was observed; this is a failed check, not 'held'")
            return EXIT_HARNESS
        if self.inconclusive > max(5, self.evaluations // 2):
            print("HARNESS: most cases inconclusive")
            return EXIT_HARNESS
        return EXIT_OK


def main_check(pid, module_run, level="exploration"):
    """Entry used by ./check: run module_run(ctx) and translate to the interface."""
    tier = os.environ.get("VERIF_TIER", "quick")
    seed = int(os.environ.get("VERIF_SEED", "0") or 0)
    ctx = Ctx(pid, tier, seed, level)
    try:
        module_run(ctx)
        rc = ctx.finish()
    except HarnessError as e:
        print("HARNESS-ERROR %s: %s" % (pid, e))
        shutil.rmtree(ctx.work, ignore_errors=True)
        rc = EXIT_HARNESS
    except Exception:
        traceback.print_exc()
        print("HARNESS-ERROR %s: exception in check" % pid)
        shutil.rmtree(ctx.work, ignore_errors=True)
        rc = EXIT_HARNESS
    return rc


def replay_generic(pid, path):
    """./check Cnn --replay DIR : show the recorded violation and re-run its command on the current build."""
    vj = os.path.join(path, "violation.json")
    if not os.path.exists(vj):
        print("no violation.json under", path)
        return EXIT_HARNESS
    v = json.load(open(vj))
    print("property %s\nsignature %s\nwhat %s" % (v.get("property"), v.get("signature"), v.get("what")))
    info = v.get("info") or {}
    argv = info.get("argv") or info.get("argv_never") or info.get("container_argv")
    if not argv:
        print("(no command recorded for this violation)")
        return EXIT_OK
    s4 = build_s4()
    case = os.path.join(path, "case")
    # recorded paths point into the (deleted) work directory of the run: map them onto the saved copy
    def remap(a):
        if isinstance(a, str) and "/work/" in a and os.path.isdir(case):
            tail = a.split("/", a.count("/"))[-1]
            for root, _, files in os.walk(case):
                if tail in files:
                    return os.path.join(root, tail)
        return a
    argv = [s4] + [remap(a) for a in argv[1:]]
    env = info.get("env") or base_env()
    env = {k: v for k, v in env.items() if isinstance(v, str)}
    r = run(argv, env, timeout=300, cwd=case if os.path.isdir(case) else None)
    print("command: %s\nexit status: %s\nstdout (%d bytes) head: %r\nstderr tail: %r" % (" ".join(argv), r.rc, len(r.out), r.out[:400], r.err[-400:]))
    for name in ("expected.stdout", "plain.stdout", "default.stdout"):
        p = os.path.join(path, name)
        if os.path.exists(p):
            same = open(p, "rb").read() == r.out
            print("stdout equals %s: %s" % (name, same))
            if name == "expected.stdout":
                return EXIT_OK if same else EXIT_VIOLATION
    return EXIT_OK
