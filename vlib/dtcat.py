"""Catalogue of timestamp notations for C04, written from the documented forms
(README 'formal datetime formats', RFC 3339 / 5424 / 3164 / 2822, ISO 8601 forms,
epoch forms, ctime-like and named-month ad-hoc forms), independent of
src/data/datetime.rs.

A template renders a line head from civil fields. Template attributes:
  zone: 'none' (no zone in text -> read in -t zone), 'num' (numeric offset),
        'z' (literal Z), 'abbr' (zone abbreviation)
  frac: True if the template accepts a fractional part (0..9 digits)
"""
from . import gen

# unambiguous abbreviations (subset of the project's table that maps to one offset); minutes east
ABBR = {
    "UTC": 0, "GMT": 0, "Z": 0, "PST": -480, "PDT": -420, "MST": -420, "MDT": -360, "CDT": -300, "EST": -300, "EDT": -240,
    "CET": 60, "CEST": 120, "EET": 120, "EEST": 180, "WET": 0, "WEST": 60, "JST": 540, "KST": 540, "HKT": 480, "NZST": 720, "NZDT": 780,
    "AKST": -540, "AKDT": -480, "HST": -600, "MSK": 180, "SGT": 480, "AEST": 600, "AEDT": 660, "ACST": 570, "AWST": 480, "NST": -210, "NDT": -150,
}


class T:
    def __init__(self, name, fn, zone, frac, doc, year=True, variants=()):
        self.name, self.fn, self.zone, self.frac, self.doc, self.year = name, fn, zone, frac, doc, year
        self.variants = variants


def _f(n, digits, sep="."):
    return (sep + gen.frac_str(n, digits)) if digits else ""


def zs(off, style):
    if style == "colon":
        return gen.off_str(off, colon=True)
    if style == "nocolon":
        return gen.off_str(off, colon=False)
    if style == "hh":
        assert off % 60 == 0
        return "%s%02d" % ("+" if off >= 0 else "-", abs(off) // 60)
    if style == "z":
        return "Z"
    raise ValueError(style)


def mk(c, case="title"):
    """month / weekday names in a letter case"""
    def cs(s):
        return {"title": s, "upper": s.upper(), "lower": s.lower()}[case]
    return cs


TEMPLATES = []


def add(name, zone, frac, doc, year=True):
    def deco(fn):
        TEMPLATES.append(T(name, fn, zone, frac, doc, year))
        return fn
    return deco


# c = (Y, M, D, h, m, s, nanos, weekday); z = zone text or None; fd = fraction digits; o = options dict

@add("rfc3339", "num", True, "RFC 3339 / ISO 8601 extended: 2020-01-01T22:00:00.123-08:00")
def _(c, z, fd, o):
    return "%04d-%02d-%02dT%02d:%02d:%02d%s%s" % (c[0], c[1], c[2], c[3], c[4], c[5], _f(c[6], fd), z)


@add("rfc3339_space", "num", True, "ISO 8601 with blank separator: 2020-01-01 22:00:00.123 -08:00")
def _(c, z, fd, o):
    return "%04d-%02d-%02d %02d:%02d:%02d%s %s" % (c[0], c[1], c[2], c[3], c[4], c[5], _f(c[6], fd), z)


@add("rfc3339_comma_frac", "num", True, "ISO 8601 with comma fraction: 2020-01-01T22:00:00,123-08:00")
def _(c, z, fd, o):
    return "%04d-%02d-%02dT%02d:%02d:%02d%s%s" % (c[0], c[1], c[2], c[3], c[4], c[5], _f(c[6], fd, ","), z)


@add("iso_nozone_T", "none", True, "ISO 8601 without zone: 2020-01-01T22:00:00.123")
def _(c, z, fd, o):
    return "%04d-%02d-%02dT%02d:%02d:%02d%s" % (c[0], c[1], c[2], c[3], c[4], c[5], _f(c[6], fd))


@add("iso_nozone_space", "none", True, "ISO 8601 blank separator, no zone: 2020-01-01 22:00:00.123")
def _(c, z, fd, o):
    return "%04d-%02d-%02d %02d:%02d:%02d%s" % (c[0], c[1], c[2], c[3], c[4], c[5], _f(c[6], fd))


@add("iso_basic", "num", False, "ISO 8601 basic: 20200101T220000-0800")
def _(c, z, fd, o):
    return "%04d%02d%02dT%02d%02d%02d%s" % (c[0], c[1], c[2], c[3], c[4], c[5], z)


@add("iso_basic_nozone", "none", False, "ISO 8601 basic without zone: 20200101T220000")
def _(c, z, fd, o):
    return "%04d%02d%02dT%02d%02d%02d" % (c[0], c[1], c[2], c[3], c[4], c[5])


@add("iso_date_ext_time_basic", "none", False, "ISO 8601 YYYY-MM-DDThhmmss")
def _(c, z, fd, o):
    return "%04d-%02d-%02dT%02d%02d%02d" % (c[0], c[1], c[2], c[3], c[4], c[5])


@add("rfc5424", "num", True, "RFC 5424: <13>1 2020-01-01T22:00:00.123456-08:00 host app 1234 ID47 - msg")
def _(c, z, fd, o):
    return "<13>1 %04d-%02d-%02dT%02d:%02d:%02d%s%s host app - ID -" % (c[0], c[1], c[2], c[3], c[4], c[5], _f(c[6], fd), z)


@add("year_rfc3164", "none", False, "year first: 2020 Jan  1 22:00:00")
def _(c, z, fd, o):
    return "%04d %s %2d %02d:%02d:%02d" % (c[0], o["mon"](gen.MONTHS[c[1] - 1]), c[2], c[3], c[4], c[5])


@add("rfc2822_num", "num", False, "RFC 2822: Wed, 1 Jan 2020 22:00:00 -0800")
def _(c, z, fd, o):
    return "%s, %d %s %04d %02d:%02d:%02d %s" % (o["day"](gen.DAYS[c[7]]), c[2], o["mon"](gen.MONTHS[c[1] - 1]), c[0], c[3], c[4], c[5], z)


@add("rfc2822_abbr", "abbr", False, "RFC 2822 with named zone: Wed, 1 Jan 2020 22:00:00 PST")
def _(c, z, fd, o):
    return "%s, %d %s %04d %02d:%02d:%02d %s" % (o["day"](gen.DAYS[c[7]]), c[2], o["mon"](gen.MONTHS[c[1] - 1]), c[0], c[3], c[4], c[5], z)


@add("rfc2822_2digit_day", "num", False, "RFC 2822 two-digit day: Wed, 01 Jan 2020 22:00:00 -0800")
def _(c, z, fd, o):
    return "%s, %02d %s %04d %02d:%02d:%02d %s" % (o["day"](gen.DAYS[c[7]]), c[2], o["mon"](gen.MONTHS[c[1] - 1]), c[0], c[3], c[4], c[5], z)


@add("ctime_year_last", "none", False, "ctime: Wed Jan  1 22:00:00 2020")
def _(c, z, fd, o):
    return "%s %s %2d %02d:%02d:%02d %04d" % (o["day"](gen.DAYS[c[7]]), o["mon"](gen.MONTHS[c[1] - 1]), c[2], c[3], c[4], c[5], c[0])


@add("ctime_zone_year", "abbr", False, "date(1): Wed Jan  1 22:00:00 PST 2020")
def _(c, z, fd, o):
    return "%s %s %2d %02d:%02d:%02d %s %04d" % (o["day"](gen.DAYS[c[7]]), o["mon"](gen.MONTHS[c[1] - 1]), c[2], c[3], c[4], c[5], z, c[0])


@add("apache_clf", "num", False, "Apache common log: 127.0.0.1 - - [01/Jan/2020:22:00:00 -0800] \"GET / HTTP/1.1\"")
def _(c, z, fd, o):
    return "127.0.0.1 - - [%02d/%s/%04d:%02d:%02d:%02d %s] \"GET / HTTP/1.1\"" % (c[2], o["mon"](gen.MONTHS[c[1] - 1]), c[0], c[3], c[4], c[5], z)


@add("slash_ymd", "none", True, "2020/01/01 22:00:00.123")
def _(c, z, fd, o):
    return "%04d/%02d/%02d %02d:%02d:%02d%s" % (c[0], c[1], c[2], c[3], c[4], c[5], _f(c[6], fd))


@add("bracket_iso", "none", True, "[2020-01-01 22:00:00.123] message")
def _(c, z, fd, o):
    return "[%04d-%02d-%02d %02d:%02d:%02d%s]" % (c[0], c[1], c[2], c[3], c[4], c[5], _f(c[6], fd))


@add("iso_space_abbr", "abbr", False, "2020-01-01 22:00:00 PST")
def _(c, z, fd, o):
    return "%04d-%02d-%02d %02d:%02d:%02d %s" % (c[0], c[1], c[2], c[3], c[4], c[5], z)


@add("iso_T_z", "z", True, "2020-01-01T22:00:00.123Z")
def _(c, z, fd, o):
    return "%04d-%02d-%02dT%02d:%02d:%02d%sZ" % (c[0], c[1], c[2], c[3], c[4], c[5], _f(c[6], fd))


# epoch forms: value is seconds since epoch (UTC by definition)
@add("audit_epoch", "epoch", True, "Red Hat audit: type=X msg=audit(1577944800.123:42):")
def _(c, z, fd, o):
    return "type=SYSCALL msg=audit(%d%s:42):" % (o["epoch"], _f(c[6], fd))


@add("strace_ttt", "epoch", True, "strace -ttt: 1577944800.123456 execve(...)")
def _(c, z, fd, o):
    return "%d%s execve(\"/bin/true\")" % (o["epoch"], _f(c[6], fd))


# fraction lengths each template is exercised with (epoch forms: what the producing tools emit)
FRACS = {"audit_epoch": (3,), "strace_ttt": (3, 6, 9)}
# numeric zone styles per template (RFC 2822 has only +hhmm; basic ISO form has no colon variant in the RFC but s4 documents both)
ZSTYLES = {"rfc2822_num": ("nocolon", "colon"), "rfc2822_2digit_day": ("nocolon", "colon")}
# epoch forms are recognised only inside this range (CGP_EPOCH: 9 digits starting with 9, or 10 digits starting with 1 or 2)
EPOCH_MIN, EPOCH_MAX = 900_000_000, 2_999_999_999

BY_NAME = {t.name: t for t in TEMPLATES}


def fracs_for(t):
    if t.name in FRACS:
        return FRACS[t.name]
    return (0, 1, 2, 3, 4, 5, 6, 7, 8, 9) if t.frac else (0,)


def zstyles_for(t):
    if t.zone == "num":
        return ZSTYLES.get(t.name, ("colon", "nocolon", "hh"))
    return {"abbr": ("abbr",), "z": ("z",), "none": ("none",), "epoch": ("epoch",)}[t.zone]


def render_line(t, ns, zone_off, zone_text, fd, case="title", tail=" message body"):
    """text of a log line whose timestamp denotes instant `ns` (already truncated to fd digits)."""
    off = 0 if t.zone in ("z", "epoch") else zone_off
    c = gen.civil(ns, off)
    cs = mk(None, case)
    o = {"mon": cs, "day": cs, "epoch": ns // gen.NS}
    return t.fn(c, zone_text, fd, o) + tail
