#!/usr/bin/env python3
"""dev tool: which catalogue templates does the current s4 parse, and how."""
import os, sys, random, subprocess, re, collections
sys.path.insert(0, os.path.dirname(os.path.dirname(os.path.abspath(__file__))))
from vlib import dtcat, gen, core
s4 = core.build_s4()
rng = random.Random(1)
d = '/tmp/dtprobe'; os.makedirs(d, exist_ok=True)
def run_case(t, zstyle, fd, case, tzarg_min, n=24):
    lines = []; want = []
    for i in range(n):
        y = rng.choice([1970, 1999, 2000, 2020, 2024, 2038, 2099]); mo = rng.randint(1, 12); dd = rng.randint(1, 28)
        ns = gen.instant(y, mo, dd, rng.randint(0, 23), rng.randint(0, 59), rng.randint(0, 59), rng.randint(0, 999999999))
        if y == 1970 and mo == 1 and dd == 1: dd = 2
        ns = gen.trunc(ns, fd)
        if t.zone == 'num':
            off = rng.choice([0, -480, 330, 60, 765]) if zstyle != 'hh' else rng.choice([0, -480, 60, 540])
            ztxt = dtcat.zs(off, zstyle)
        elif t.zone == 'abbr':
            ab = rng.choice(sorted(dtcat.ABBR)); off = dtcat.ABBR[ab]; ztxt = ab
        elif t.zone in ('z', 'epoch'):
            off = 0; ztxt = 'Z'
        else:
            off = tzarg_min; ztxt = None
        lines.append(dtcat.render_line(t, ns, off, ztxt, fd, case, tail=' K%dK body' % i)); want.append(ns)
    p = os.path.join(d, 'x.log'); open(p, 'w').write('\n'.join(lines) + '\n')
    r = subprocess.run([s4, '--color', 'never', '-t=' + gen.off_str(tzarg_min), '-u', '-d', '%Y%m%dT%H%M%S%.9f', p], capture_output=True, env={'TZ': 'UTC'})
    got = {}
    for ln in r.stdout.decode('latin-1').splitlines():
        m = re.match(r'(\d{8})T(\d{6})\.(\d{9}):.* K(\d+)K', ln)
        if m:
            ds, ts, fr, k = m.groups()
            got[int(k)] = gen.instant(int(ds[:4]), int(ds[4:6]), int(ds[6:]), int(ts[:2]), int(ts[2:4]), int(ts[4:]), int(fr))
    ok = sum(1 for i in range(n) if got.get(i) == want[i])
    bad = [(lines[i], want[i], got.get(i)) for i in range(n) if got.get(i) != want[i]]
    return ok, n, bad, r.stderr[:100]
for t in dtcat.TEMPLATES:
    styles = {'num': ['colon', 'nocolon', 'hh'], 'abbr': ['abbr'], 'z': ['z'], 'none': ['none'], 'epoch': ['epoch']}[t.zone]
    for zs in styles:
        for fd in ([0, 3, 6, 9, 1] if t.frac else [0]):
            for case in (['title', 'upper', 'lower'] if 'mon' in t.fn.__code__.co_consts or True else ['title']):
                if case != 'title' and not any(k in t.name for k in ('rfc3164', 'rfc2822', 'ctime', 'apache', 'mon', 'year_rfc')): continue
                ok, n, bad, err = run_case(t, zs, fd, case, -300)
                flag = 'OK ' if ok == n else ('NONE' if ok == 0 and all(b[2] is None for b in bad) else 'BAD')
                print('%-4s %-26s zone=%-8s frac=%d case=%-5s %d/%d %s' % (flag, t.name, zs, fd, case, ok, n, ('' if ok == n else repr(bad[0])[:170])))
