#!/usr/bin/env python3
"""Compare a `cargo nextest run` log with /root/.vp/BASELINE.json stable_pass.
usage: baseline_compare.py <nextest.log>   -> exit 0 iff every stable_pass test PASSed."""
import json, re, sys
b = json.load(open('/root/.vp/BASELINE.json'))
want = set(b['stable_pass'])
got = set()
for line in open(sys.argv[1], errors='replace'):
    m = re.match(r'\s+(?:PASS|LEAK) \[[^\]]*\]\s+(?:\(\s*\d+/\d+\)\s+)?(\S+)\s+(\S+)', line)
    if m:
        got.add(m.group(1) + '::' + m.group(2))
missing = sorted(want - got)
print('stable_pass %d, passed-now %d, missing %d' % (len(want), len(got), len(missing)))
for m in missing[:40]:
    print('  MISSING', m)
sys.exit(1 if missing else 0)
