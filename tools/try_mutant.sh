#!/bin/bash
# usage: tools/try_mutant.sh <patch.diff> <Cnn> [<Cnn> ...]
# Applies the patch to /repo, runs the given checks (quick), reverts /repo. Prints one line per check.
patch="$1"; shift
cd /verif
git -C /repo diff --quiet || { echo "/repo has local changes; refusing"; exit 2; }
git -C /repo apply "$patch" || { echo "patch does not apply"; exit 2; }
trap 'git -C /repo checkout -- . ; git -C /repo status --short | head -3' EXIT
for c in "$@"; do
  out=$(VERIF_TIER=${TIER:-quick} ./check "$c" --tier ${TIER:-quick} 2>&1); rc=$?
  echo "== $c rc=$rc :: $(echo "$out" | grep -c '^VIOLATION') VIOLATION lines; $(echo "$out" | grep "signature:" | sort | uniq -c | sort -rn | head -4 | tr '\n' ';')"
  echo "$out" | grep -E "^$c (quick|thorough)" 
done
