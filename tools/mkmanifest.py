#!/usr/bin/env python3
"""Regenerates /verif/MANIFEST.json from the table below (only checks whose
module exists in checks/ are claimed; the rest are listed under not_applicable
with the reason 'check not built yet')."""
import json
import os
import subprocess

V = os.path.dirname(os.path.dirname(os.path.abspath(__file__)))

CHECKS = {
    "C01": dict(cat="exploration", tech="reference k-way merge model over generated multi-source runs under perturbed worker schedules (runtime monitor on stdout)",
                text="Runs the real s4 binary on generated sets of 1..8 text sources (plain/gz/bz2/xz/lz4/tar) with ties, 1 ns..1 s steps and mixed UTC offsets, in many argument orders and under hook-injected worker schedules; stdout must equal the reference merge byte for byte. Part 2 merges text, fixed-struct, evtx and journal sources and compares the hook trace's print events (source, instant) with the reference merge over instant lists taken from the generator and from independent readers (evtx-crate dump, journalctl). Held = on the executions observed.",
                note="generator-known instants; python codecs produce valid streams; schedule reach is what the delays produced (counted in evidence)", ref="4/C01"),
    "C02": dict(cat="exploration", tech="byte-exact reference message model at the binary + in-process exhaustive line/sysline reader sweep over every block size (runtime oracle), ASan sample",
                text="Boundary-directed generated text logs (CRLF, NUL, non-UTF-8, long lines) printed by s4 at many block sizes must equal the file suffix from the first timestamped line; in-process harness enumerates small files x every block size against a reference line splitter.",
                note="continuation lines contain no digits so the reference grouping is unambiguous", ref="4/C02"),
    "C03": dict(cat="exploration", tech="window oracle (A<=t<=B) over generator-known instants; metamorphic windowed==filtered(unwindowed); all source kinds",
                text="Generated chronological text sources with duplicate-timestamp runs; windows placed before/between/exactly on/+-1us/after instants and A=B; binary-search (plain) and linear (streamed) strategies at 6 block sizes; fixed-struct records through C08's record model with a window on every case; evtx and journal windows against the independent dump / journalctl.",
                note="bounds are passed in absolute form with explicit offset", ref="4/C03"),
    "C04": dict(cat="exploration", tech="instant oracle: timestamps rendered by an independent notation catalogue from integer instants, compared with s4's --prepend-utc output",
                text="Per (notation, zone spelling, fraction length) one file; dates sweep 1970..2099 including month ends and leap days; offsets in 15-minute steps; named zones; -t values. Every zone abbreviation (tz database, catalogue and the program's table; both letter cases) is swept: against python zoneinfo where the tz database uses it with one offset, and upper- against lower-case.",
                note="catalogue templates are documented notations; python calendar arithmetic is trusted", ref="4/C04"),
    "C05": dict(cat="exploration", tech="differential plain vs container runs across codec parameter space (levels, block splits, header fields, tar formats) and block sizes",
                text="stdout(container) must equal stdout(plain) for text, utmp, evtx, journal payloads; lz4 frames are written by hand to choose block splits; gzip files of several members; tar archives with directory and link entries, long names, several members.",
                note="python codecs and hand-written lz4 frame writer produce valid streams (validated by lz4_flex through s4 on aligned sizes)", ref="4/C05"),
    "C06": dict(cat="exploration", tech="offline trace checker (protocol state machine) over hook event logs + stdout equality across schedules + bounded-progress watchdog with deadlock probe + ThreadSanitizer build",
                text="Every hooked run's trace is replayed against the channel/print protocol: FileInfo NewMessage* FileSummary per worker, print only when every live source has a pending datum, print = (dt, pathid) minimum, prints == messages received, loop ends normally; stdout identical across schedules. A ThreadSanitizer build (std rebuilt with the sanitizer) runs the same kind of cases incl. --summary and SIGINT: every report block is a violation.",
                note="hooks log under one mutex so trace order is a total order consistent with real time at the log points; liveness restated as bounded progress", ref="4/C06"),
    "C07": dict(cat="fault_enumeration", tech="fault injection (truncation, corruption, random bytes, mismatching names) under AddressSanitizer and release builds; process-status + sanitizer-report oracle; valgrind/Miri in thorough",
                text="Faulted inputs of every kind and container (truncation at every offset or offset class, 1/2/4/8-byte overwrites, random/zero/0xFF/printable byte strings, mismatching names, every integer field of every record layout at limit values, every numeric tar header field incl. base-256 forms, extreme mtimes, files unreadable under uid 65534, hostile text: month spellings, date/time fields beyond their limits, year-less logs with an undated head), alone and beside 1..3 valid sources, a third with --summary, run on the AddressSanitizer build: no signal/abort/panic, exit in {0,1}, no sanitizer report, no hang (watchdog + /proc probe), valid sources' messages all present in order; cases stopped by a known sanitizer report are re-run on the release build.",
                note="ASan sees only what the workload reaches; intra-object overflows are invisible to it", ref="4/C07"),
    "C08": dict(cat="exploration", tech="reference stable sort of generated fixed-struct records (independent python layout tables) vs s4 output; ASan build for full-width fields",
                text="All 16 record layouts, duplicate/reversed/equal times, null records, sparse files (up to 70000 leading null slots), full-width fields, bytes above 0x7f in string fields, IPv6 patterns, block sizes and containers; files whose size fits two layouts are run 5 times (same output every run).",
                note="python struct layouts restate the C ABI sizes/offsets independently", ref="4/C08"),
    "C09": dict(cat="exploration", tech="differential against journalctl --file (independent reader) for all renderings, windows on entry times, containers",
                text="Entry sequence, export fields, cat text and the [pid] of the short renderings compared with journalctl for every available journal file; windows on entry times, +-1 us, between entries, before 1970.",
                note="journalctl 252 decodes the shipped files correctly; no journal writer exists offline so inputs are the shipped files", ref="4/C09"),
    "C10": dict(cat="exploration", tech="differential against an independent evtx-crate dump (record id, FILETIME) incl. timestamp-patched variants; windows; containers",
                text="EventRecordID sequence of stdout must equal the stable sort by creation time of the independent dump filtered by the window; header times patched to ties, reversed runs, sub-millisecond steps, shuffles and records displaced by nearly the whole file.",
                note="evtx crate decodes records correctly; chunk CRCs are not validated by the crate", ref="4/C10"),
    "C11": dict(cat="exploration", tech="instant oracle for year-less renderings with chosen mtimes (filesystem, gzip header, tar member)",
                text="Generated year-less logs spanning 0..4 year boundaries; --prepend-utc dates must equal the generator's; windows and merges use inferred dates.",
                note="excludes 29 Feb followed by later-year message (Issue #245) as the property states", ref="4/C11"),
    "C12": dict(cat="exploration", tech="differential default vs every other --blocksz on boundary-directed inputs; in-process sweep down to block size 1",
                text="stdout(--blocksz b) must equal stdout(default) for text (block edges directed into timestamps, short messages followed by a line that runs past block zero), fixed-struct, containers, journal/evtx; the known block-zero class is calibrated to what the unchanged program rejects.",
                note="-", ref="4/C12"),
    "C13": dict(cat="exploration", tech="strict parser of the decorated stream built from the options + byte equality of the remainder with the undecorated run",
                text="Full factorial of prepend/separator/colour options over the four message kinds (every journal rendering; separators containing '%'; a silent widest-named file; fixed-struct records sharing a second); field order, padding, datetime field value are checked.",
                note="generator-known instants for text; undecorated run as reference for other kinds", ref="4/C13"),
    "C14": dict(cat="exploration", tech="grammar-driven generation of filter arguments; resolved bound read from --summary and pinned with a probe log at sub-second resolution",
                text="Every documented absolute and relative form under several -t, incl. @-forms relative to a now-relative bound; near-miss strings must be rejected before any output.",
                note="relative forms are evaluated against the run's own 'Datetime Now'", ref="4/C14"),
    "C15": dict(cat="exploration", tech="differential triple: directory vs explicit sorted list vs stdin list on random trees",
                text="Random trees with symlinks (also named unlike their targets), loops, directories whose names prefix a sibling's, odd names (also ending in white space beside a sibling without it) and mixed suffixes, tar members with non-log suffixes; all splits between argv and stdin; component-wise sorted order with cross-file ties.",
                note="sorted path order = order of a sorted directory walk", ref="4/C15"),
    "C16": dict(cat="exploration", tech="independent name-grammar model vs path_to_filetype in-process over the exhaustive grammar product + arbitrary strings",
                text="About 6.6x10^5 grammar names; termination and time (names with up to 60 unrecognised components), no panic; invariance under rotation suffixes, junk and case; tar members must be read like the plain file of the same name.",
                note="-", ref="4/C16"),
    "C17": dict(cat="exploration", tech="summary high-water marks and peak RSS across file-size scaling (n..64n) for streamed text logs",
                text="High-water marks must not grow with size (log growth allowed for windowed plain files).",
                note="-", ref="4/C17"),
    "C18": dict(cat="fault_enumeration", tech="signal injection at sampled instants and hook-defined phases + TMPDIR leftovers oracle + planned-delay promptness test",
                text="Compressed/archived journal+evtx sources extracted concurrently; normal runs under schedules, with a stdout reader that goes away, and SIGINT at each phase, beside a source that fails part way, and with stdout unread; TMPDIR must be empty after exit. Promptness: a worker planned silent for 8 s (hooked), and hook-free runs (no trace, no delays) of a source that takes seconds to extract, alone and beside 3..30 finished sources, judged against the uninterrupted run's duration.",
                note="kernel delivers SIGINT to the ctrlc thread as in production", ref="4/C18"),
    "C19": dict(cat="exploration", tech="summary parser vs stdout counts and generator ground truth across windows and decoration options",
                text="stdout with and without --summary identical; printed bytes/lines/messages equal to stdout; per-file counts add up; first/last datetimes and bounds are the run's.",
                note="-", ref="4/C19"),
}


def main():
    have = {f[:-3].upper() for f in os.listdir(os.path.join(V, "checks")) if f.startswith("c") and f.endswith(".py")}
    checks, na = [], []
    for pid in sorted(CHECKS):
        c = CHECKS[pid]
        if pid not in have:
            na.append({"property_id": pid, "reason": "check not built yet in this revision (designed in DESIGN.md section %s); the technique applies" % c["ref"]})
            continue
        checks.append({
            "property_id": pid,
            "quick_cmd": "./check %s --tier quick" % pid,
            "thorough_cmd": "./check %s --tier thorough" % pid,
            "evidence_file": "evidence/%s.json" % pid,
            "replay_cmd_template": "./check %s --replay {path}" % pid,
            "engine": "s4verif-monitor",
            "level_claimed": {"category": c["cat"], "text": c["text"], "design_ref": "DESIGN.md section " + c["ref"]},
            "level_note": c["note"],
            "technique": c["tech"],
        })
    try:
        commits = subprocess.run(["git", "-C", "/repo", "log", "--format=%H %s", "--grep", "^verif hooks"],
                                 capture_output=True, text=True).stdout.strip().splitlines()
    except Exception:
        commits = []
    m = {
        "version": 1,
        "setup_cmd": "./setup.sh",
        "hooks": {
            "guard": "cfg(s4_verif)",
            "enable": "RUSTFLAGS='--cfg s4_verif' cargo build --release --offline (done by vlib/core.py for every check)",
            "baseline_off_cmd": "cd /repo && cargo nextest run --workspace --no-fail-fast --test-threads 8 --offline",
            "source_commits": [c.split()[0] for c in commits],
            "add_only": True,
        },
        "engines": [{"name": "s4verif-monitor", "path": "check", "serves_properties": [c["property_id"] for c in checks],
                     "kind_free_text": "python runtime monitors over the hooked s4 binary (stdout/stderr/trace/exit status oracles), ASan/valgrind/Miri builds, in-process Rust harness"}],
        "checks": checks,
        "not_applicable": na,
        "notes": "All checks rebuild s4 (and the in-process harness / ASan build where used) from /repo's working tree with --cfg s4_verif. Genuine defects that were recorded rather than repaired: known_findings.json (status 'known'; 'fixed' entries are history and suppress nothing). Seeded changes and the detection matrix: seeded/, seeded_own/. DESIGN.md sections 11-14 describe the as-built state.",
    }
    with open(os.path.join(V, "MANIFEST.json"), "w") as f:
        json.dump(m, f, indent=1)
        f.write("\n")
    print("claimed:", [c["property_id"] for c in checks])


if __name__ == "__main__":
    main()
