#!/bin/bash
# usage: tools/confirm_mutant.sh <Cnn> [<name>]   (worktree /tmp/mut/<name>, deliverables /tmp/mut/out/<name>)
# Confirms a seeded change independently: applies to a clean scratch worktree, builds,
# runs the repository's test-suite and the demo on both builds, then files it under /verif/seeded/<name>/.
id="$1"; name="${2:-$1}"
wt=/tmp/mut/$name; out=/tmp/mut/out/$name; dst=/verif/seeded/$name
log=/tmp/mut/confirm-$name.log
exec > >(tee $log) 2>&1
set -x
[ -f $out/patch.diff ] || { echo "no patch"; exit 2; }
cd $wt || exit 2
git checkout -q -- . ; git clean -fdq src
git apply --check $out/patch.diff || { echo "RESULT $name: patch does not apply to pristine"; exit 1; }
git apply $out/patch.diff
export CARGO_TARGET_DIR=$wt/target CARGO_NET_OFFLINE=true
CARGO_PROFILE_RELEASE_LTO=false CARGO_PROFILE_RELEASE_CODEGEN_UNITS=16 cargo build --release --offline --bin s4 2>&1 | tail -2
[ -x $wt/target/release/s4 ] || { echo "RESULT $name: mutated build failed"; exit 1; }
ok=0
for try in 1 2 3; do
  cargo nextest run --workspace --no-fail-fast --test-threads 8 --offline > $out/nextest.confirm.log 2>&1
  if python3 /verif/tools/baseline_compare.py $out/nextest.confirm.log; then ok=1; break; fi
done
[ $ok = 1 ] || { echo "RESULT $name: test-suite does not match baseline"; exit 1; }
# pristine binary: built from /repo HEAD (must be clean)
git -C /repo diff --quiet || { echo "RESULT $name: /repo dirty, cannot use pristine binary"; exit 2; }
( cd /verif && python3 -c "import sys; sys.path.insert(0,'.'); from vlib import core; print(core.build_s4())" )
cp /verif/.build/b1/release/s4 /tmp/mut/s4-pristine-$name
bash $out/demo.sh /tmp/mut/s4-pristine-$name $wt > $out/demo.pristine.out 2>&1; rp=$?
bash $out/demo.sh $wt/target/release/s4 $wt > $out/demo.mutated.out 2>&1; rm_=$?
rm -f /tmp/mut/s4-pristine-$name
echo "demo pristine rc=$rp mutated rc=$rm_"
if [ $rp = 0 ] && [ $rm_ != 0 ]; then
  mkdir -p $dst
  cp $out/patch.diff $out/demo.sh $dst/
  python3 - "$id" "$name" "$out" "$dst" "$rp" "$rm_" <<'PY'
import json, sys
pid, name, out, dst, rp, rm_ = sys.argv[1:]
try:
    m = json.load(open(out + '/meta.json'))
except Exception as e:
    m = {"note": "agent meta.json unreadable: %s" % e}
m["property"] = pid
m["confirmed_by_framework_author"] = {
    "test_suite": "cargo nextest run --workspace --no-fail-fast --offline in a scratch worktree with the change applied: all 3194 baseline-passing tests pass (tools/baseline_compare.py: missing 0)",
    "demo_on_pristine_rc": int(rp), "demo_on_mutated_rc": int(rm_),
}
json.dump(m, open(dst + '/meta.json', 'w'), indent=1)
PY
  echo "RESULT $name: CONFIRMED"
else
  echo "RESULT $name: demo did not discriminate (pristine rc=$rp, mutated rc=$rm_)"
fi
