#!/usr/bin/env python3
"""Writes the framework author's own planned breaks (DESIGN.md section 7) as patches under seeded_own/<name>/patch.diff,
each produced by an exact string replacement in a scratch worktree of /repo's HEAD. They are not independent of the
checks (unlike seeded/), they probe sensitivity in places the agents did not touch."""
import json, os, subprocess, sys
V = os.path.dirname(os.path.dirname(os.path.abspath(__file__)))
M = [
 ("C03-before-exclusive", "C03", "src/data/datetime.rs", "        (None, Some(db)) => {\n            if db < dt {", "        (None, Some(db)) => {\n            if db <= dt {", "dt_pass_filters: --dt-before becomes exclusive when only -b is given"),
 ("C06-drop-fileinfo-barrier", "C06", "src/bin/s4.rs", "            || ! map_pathid_received_fileinfo.is_empty()\n", "", "print without waiting for every FileInfo"),
 ("C06-print-without-all-channels", "C06", "src/bin/s4.rs", "        if MAP_PATHID_CHANRECVDATUM.read().unwrap().len() != map_pathid_datum.len()\n", "        if map_pathid_datum.is_empty()\n", "print as soon as any source has a pending message"),
 ("C17-no-drop", "C17", "src/readers/syslogprocessor.rs", "        if bo_first > 1 {\n            def1ñ!();\n            return self.drop_data(bo_first - 2);", "        if bo_first > 1 && bo_first % 64 == 0 {\n            def1ñ!();\n            return self.drop_data(bo_first - 2);", "drop_data_try only every 64th block"),
 ("C19-separator-counted-twice", "C19", "src/bin/s4.rs", "                    if sepb_print {\n                        write_stdout(sepb);\n                        if cli_opt_summary {\n                            summaryprinted.bytes += sepb.len() as Count;\n                            summaryprinted.flushed += 1;\n                        }\n                    }\n                    // If a file's last char", "                    if sepb_print {\n                        write_stdout(sepb);\n                        if cli_opt_summary {\n                            summaryprinted.bytes += 2 * sepb.len() as Count;\n                            summaryprinted.flushed += 1;\n                        }\n                    }\n                    // If a file's last char", "separator bytes counted twice for text messages"),
 ("C15-unsorted-walk", "C15", "src/readers/filepreprocessor.rs", "        .sort(true)\n", "        .sort(false)\n", "directory walk not sorted"),
 ("C08-null-rule", "C08", "src/readers/fixedstructreader.rs", "            if tv_pair == tv_pair_type(0, 0) {", "            if tv_pair.0 == 0 || tv_pair.1 == 0 {", "records with zero microseconds treated as null"),
 ("C10-window-before-exclusive", "C10", "src/readers/evtxreader.rs", None, None, "placeholder"),
 ("C14-at-relative-to-now", "C14", "src/bin/s4.rs", "                Some(dt_other) => {\n                    defo!(\"other     {:?}\", dt_other);\n                    let other_off = dt_other.checked_add_signed(duration);", "                Some(dt_other) => {\n                    defo!(\"other     {:?}\", dt_other);\n                    let other_off = dt_other.checked_add_signed(duration + Duration::try_milliseconds(1).unwrap());", "@-relative bound off by one millisecond"),
 ("C11-year-step-threshold", "C11", "src/readers/syslogprocessor.rs", "Duration::try_seconds(60 * 60 * 25).unwrap();", "Duration::try_seconds(60 * 60 * 24 * 40).unwrap();", "year wrap only detected for jumps above 40 days"),
 ("C13-missing-separator-evtx", "C13", "src/bin/s4.rs", None, None, "placeholder"),
 ("C01-ties-by-reverse-pathid", "C01", "src/bin/s4.rs", "                        x.1.0.dt().cmp(y.1.0.dt())\n", "                        x.1.0.dt().cmp(y.1.0.dt()).then(y.0.cmp(x.0))\n", "cross-source ties printed in reverse naming order"),
 ("C02-final-newline-not-supplied", "C02", "src/bin/s4.rs", "                    if is_last && !(*syslinep).ends_with_newline() {", "                    if is_last && !(*syslinep).ends_with_newline() && (*syslinep).count_lines() > 1 {", "final newline supplied only for multi-line last messages"),
 ("C16-xzip-not-compression", "C16", "src/readers/filepreprocessor.rs", "        \"xz\" | \"xzip\" => {", "        \"xz\" => {", ".xzip no longer selects the xz container"),
 ("C04-pm-zone", "C04", "src/data/datetime.rs", None, None, "placeholder"),
 ("C09-cat-drops-last-byte", "C09", "src/readers/journalreader.rs", None, None, "placeholder"),
]
def main():
    wt = "/tmp/mm/own"
    subprocess.run(["git", "-C", "/repo", "worktree", "remove", "--force", wt], capture_output=True)
    subprocess.run(["git", "-C", "/repo", "worktree", "add", "--detach", wt, "HEAD"], capture_output=True, check=True)
    made = []
    for name, prop, path, old, new, what in M:
        if old is None:
            continue
        subprocess.run(["git", "-C", wt, "checkout", "--", "."], check=True)
        p = os.path.join(wt, path)
        s = open(p).read()
        if s.count(old) != 1:
            print("SKIP %s: pattern occurs %d times" % (name, s.count(old)))
            continue
        open(p, "w").write(s.replace(old, new))
        d = os.path.join(V, "seeded_own", name)
        os.makedirs(d, exist_ok=True)
        diff = subprocess.run(["git", "-C", wt, "diff"], capture_output=True, text=True).stdout
        open(os.path.join(d, "patch.diff"), "w").write(diff)
        json.dump({"property": prop, "summary": what, "origin": "framework author's planned break (DESIGN.md section 7); not independent of the checks; "
                   "only checked to compile, the repository's suite was not run on it"}, open(os.path.join(d, "meta.json"), "w"), indent=1)
        made.append(name)
    subprocess.run(["git", "-C", "/repo", "worktree", "remove", "--force", wt], capture_output=True)
    print("made", made)
main()
