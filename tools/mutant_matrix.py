#!/usr/bin/env python3
"""Run the quick checks against every seeded change (seeded/<id>/patch.diff), each in
its own scratch worktree of /repo and its own build directory under /tmp, and print /
write the detection matrix (seeded/MATRIX.json). /repo itself is never modified.
usage: tools/mutant_matrix.py [id ...] [--jobs N]"""
import json, os, shutil, subprocess, sys, concurrent.futures as cf
V = os.path.dirname(os.path.dirname(os.path.abspath(__file__)))
REL = {"C01": ["C01", "C06", "C11"], "C02": ["C02", "C12"], "C03": ["C03"], "C04": ["C04"], "C05": ["C05", "C11"], "C06": ["C06", "C01"], "C07": ["C07", "C06"],
       "C08": ["C08", "C13"], "C09": ["C09", "C03"], "C10": ["C10"], "C11": ["C11"], "C12": ["C12", "C02", "C03"], "C13": ["C13"], "C14": ["C14"], "C15": ["C15"],
       "C16": ["C16"], "C17": ["C17"], "C18": ["C18"], "C19": ["C19"]}

def one(mid):
    wt = "/tmp/mm/%s" % mid
    bd = "/tmp/mm/%s-build" % mid
    od = "/tmp/mm/%s-out" % mid
    subprocess.run(["git", "-C", "/repo", "worktree", "remove", "--force", wt], capture_output=True)
    shutil.rmtree(bd, ignore_errors=True); shutil.rmtree(od, ignore_errors=True)
    os.makedirs("/tmp/mm", exist_ok=True)
    r = subprocess.run(["git", "-C", "/repo", "worktree", "add", "--detach", wt, "HEAD"], capture_output=True, text=True)
    res = {"id": mid, "checks": {}}
    patch = os.path.join(V, SEEDDIR, mid, "patch.diff")
    a = subprocess.run(["git", "-C", wt, "apply", patch], capture_output=True, text=True)
    if a.returncode != 0:
        a = subprocess.run(["git", "-C", wt, "apply", "--3way", patch], capture_output=True, text=True)
    if a.returncode != 0:
        res["error"] = "patch does not apply to current HEAD: " + a.stderr[-300:]
    else:
        prop = json.load(open(os.path.join(V, SEEDDIR, mid, "meta.json"))).get("property", mid[:3])
        for c in REL.get(prop, [prop]):
            env = dict(os.environ, VERIF_REPO=wt, VERIF_BUILD=bd, VERIF_OUT=od, VERIF_TIER="quick", VERIF_SEED=os.environ.get("VERIF_SEED", "0"))
            p = subprocess.run([os.path.join(V, "check"), c, "--tier", "quick"], capture_output=True, text=True, env=env, cwd=V)
            sigs = sorted({l.split("signature: ")[1].strip() for l in p.stdout.splitlines() if "signature: " in l})
            res["checks"][c] = {"rc": p.returncode, "violation_lines": p.stdout.count("\nVIOLATION ") + p.stdout.startswith("VIOLATION "), "signatures": sigs[:6],
                                "tail": p.stdout.strip().splitlines()[-1:] if p.returncode not in (0, 1) else []}
    subprocess.run(["git", "-C", "/repo", "worktree", "remove", "--force", wt], capture_output=True)
    shutil.rmtree(bd, ignore_errors=True); shutil.rmtree(od, ignore_errors=True)
    return res

SEEDDIR = "seeded"


def main():
    global SEEDDIR
    if "--dir" in sys.argv:
        i = sys.argv.index("--dir"); SEEDDIR = sys.argv[i + 1]; del sys.argv[i:i + 2]
    args = [a for a in sys.argv[1:] if not a.startswith("--")]
    jobs = 2
    if "--jobs" in sys.argv:
        jobs = int(sys.argv[sys.argv.index("--jobs") + 1]); args = [a for a in args if a != str(jobs)]
    ids = args or sorted(d for d in os.listdir(os.path.join(V, SEEDDIR)) if os.path.isdir(os.path.join(V, SEEDDIR, d)))
    out = {}
    mp = os.path.join(V, SEEDDIR, "MATRIX.json")
    if os.path.exists(mp):
        out = json.load(open(mp))
    with cf.ThreadPoolExecutor(max_workers=jobs) as ex:
        for res in ex.map(one, ids):
            out[res["id"]] = res
            caught = [c for c, v in res["checks"].items() if v["rc"] == 1]
            print(res["id"], "CAUGHT by " + ",".join(caught) if caught else ("NOT CAUGHT " + res.get("error", "")), {c: (v["rc"], v["signatures"][:2]) for c, v in res["checks"].items()}, flush=True)
    json.dump(out, open(mp, "w"), indent=1, sort_keys=True)

if __name__ == "__main__":
    main()
