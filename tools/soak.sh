#!/bin/bash
# usage: tools/soak.sh "<seeds>" [tier] [checks...]   -- runs the checks at each seed, prints one line per run
seeds="$1"; tier="${2:-quick}"; shift; shift
checks="${@:-C01 C02 C03 C04 C05 C06 C07 C08 C09 C10 C11 C12 C13 C14 C15 C16 C17 C18 C19}"
cd "$(dirname "$0")/.."
for s in $seeds; do
  for c in $checks; do
    out=$(VERIF_SEED=$s ./check $c --tier $tier 2>&1); rc=$?
    echo "seed=$s $c rc=$rc $(echo "$out" | grep -E "^$c (quick|thorough)" | cut -c1-160)"
    if [ $rc != 0 ]; then echo "$out" | grep -E "signature:|HARNESS|Traceback|Error" | sort | uniq -c | head -8; fi
  done
done
