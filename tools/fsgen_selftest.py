#!/usr/bin/env python3
"""Self-test of vlib/fsgen.py against the s4 binary.

For every layout: write N records to a temp file named as the layout needs, run s4 with -s
(chosen fixedstructtype) and with -u -d '%Y%m%dT%H%M%S%.6f' (record datetimes) and check
  (a) s4 chose exactly that layout, (b) it printed N lines, (c) every line parses back to
  the generated field values, (d) the prepended datetimes equal record_instant_ns.
Cases per layout: "plain" (primary file name), "name=<alt>" (every alternative file name),
"fullw" (char arrays filled to full width, no NUL) and "null" (all-zero records interleaved;
s4 is expected to skip them).  plain/name= failures make the exit status non-zero; fullw and
null are reported as DEVIATION (they exercise known s4 defects) unless --strict is given.

usage: fsgen_selftest.py [--s4 PATH] [--strict] [-v] [LAYOUT-substring ...]
"""
import os
import re
import subprocess
import sys
import tempfile

sys.path.insert(0, os.path.join(os.path.dirname(os.path.abspath(__file__)), ".."))
from vlib import fsgen  # noqa: E402

S4 = "/verif/.build/b1/release/s4"
DT_FMT = "%Y%m%dT%H%M%S%.6f"
N = 8
T0 = 1_690_000_000


def fmt_instant(ns):
    """ns since epoch -> text of DT_FMT at UTC (independent integer arithmetic)."""
    secs, nanos = divmod(ns, 1_000_000_000)
    days, rem = divmod(secs, 86400)
    z = days + 719468
    era = z // 146097
    doe = z - era * 146097
    yoe = (doe - doe // 1460 + doe // 36524 - doe // 146096) // 365
    doy = doe - (365 * yoe + yoe // 4 - yoe // 100)
    mp = (5 * doy + 2) // 153
    d = doy - (153 * mp + 2) // 5 + 1
    m = mp + 3 if mp < 10 else mp - 9
    y = yoe + era * 400 + (1 if m <= 2 else 0)
    return "%04d%02d%02dT%02d%02d%02d.%06d" % (y, m, d, rem // 3600, rem % 3600 // 60, rem % 60,
                                               nanos // 1000)


def run_s4(s4, path, extra):
    env = dict(os.environ, TZ="UTC")
    try:
        p = subprocess.run([s4, "--color", "never", "-t=+00:00"] + extra + [path], env=env,
                           stdout=subprocess.PIPE, stderr=subprocess.PIPE, timeout=30)
        return p.returncode, p.stdout, p.stderr
    except subprocess.TimeoutExpired:
        return "timeout", b"", b""


def run_case(s4, layout, tmp, case, filename=None, full_width=False, with_nulls=False):
    """-> dict(chosen, lines, notes[list of str]); notes empty means everything matched."""
    d = tempfile.mkdtemp(prefix=layout.name + "_", dir=tmp)
    path = os.path.join(d, filename or layout.filename)
    made, recs = [], []
    for i in range(N):
        rec, vals = fsgen.make_record(layout, i, T0 + 100 * i, usec=(1000 * i + 7) if layout.time_usec else 0,
                                      full_width=full_width)
        assert fsgen.unpack(layout, rec)[layout.time_sec] == T0 + 100 * i
        if with_nulls and i in (0, 3, 4):  # leading, and two adjacent in the middle
            recs.append(fsgen.null_record(layout))
        recs.append(rec)
        made.append(vals)
    if with_nulls:
        recs.append(fsgen.null_record(layout))
    with open(path, "wb") as f:
        f.write(fsgen.build_file(layout, recs))

    notes = []
    rc1, out1, err1 = run_s4(s4, path, ["-s"])
    rc2, out2, _ = run_s4(s4, path, ["-u", "-d", DT_FMT])
    m = re.search(rb"fixedstructtype: (Fs_\w+)", err1)
    chosen = m.group(1).decode() if m else "none"
    if rc1 != 0 or rc2 != 0:
        notes.append("exit status %s/%s" % (rc1, rc2))
    if chosen != layout.name:
        notes.append("chose %s" % chosen)
    lines = fsgen.split_printed(out1)
    if len(lines) != len(made):
        notes.append("%d lines for %d records" % (len(lines), len(made)))
    if chosen == layout.name:
        want = [fsgen.expected_fields(layout, v) for v in made]
        bad = 0
        for k, line in enumerate(lines):
            try:
                got = fsgen.parse_printed_line(layout, line)
            except ValueError as e:
                got = {"!": str(e)}
            if k >= len(want) or got != want[k]:
                bad += 1
                if bad == 1:
                    exp = want[k] if k < len(want) else {}
                    diff = sorted(n for n in set(got) | set(exp) if got.get(n) != exp.get(n))
                    notes.append("line %d fields differ: %s" % (k, ", ".join(
                        "%s got %r want %r" % (n, _short(got.get(n)), _short(exp.get(n))) for n in diff[:3])))
        if bad > 1:
            notes.append("%d lines differ in all" % bad)
        # (d) prepended datetimes, and the decorated line body equals the undecorated line
        dlines = fsgen.split_printed(out2)
        wantdt = [fmt_instant(fsgen.record_instant_ns(layout, v)).encode() + b":" for v in made]
        gotdt = [l[:len(w)] for l, w in zip(dlines, wantdt)]
        if len(dlines) != len(lines) or gotdt != wantdt:
            k = next((i for i, (g, w) in enumerate(zip(gotdt, wantdt)) if g != w), -1)
            notes.append("datetimes differ (%d lines; first at %d: got %r want %r)" % (
                len(dlines), k, gotdt[k] if k >= 0 else None, wantdt[k] if k >= 0 else None))
        elif [l[len(w):] for l, w in zip(dlines, wantdt)] != lines:
            notes.append("decorated line bodies differ from undecorated")
    return {"case": case, "file": os.path.basename(path), "chosen": chosen, "lines": len(lines),
            "notes": notes, "sample": lines[0] if lines else b""}


def _short(v):
    r = repr(v)
    return r if len(r) <= 48 else r[:45] + "..."


def main(argv):
    s4, strict, verbose, subs = S4, False, False, []
    it = iter(argv)
    for a in it:
        if a == "--s4":
            s4 = next(it)
        elif a == "--strict":
            strict = True
        elif a == "-v":
            verbose = True
        else:
            subs.append(a)
    if not os.access(s4, os.X_OK):
        print("s4 binary not found: %s" % s4)
        return 2
    rows, failed, samples = [], 0, {}
    with tempfile.TemporaryDirectory(prefix="fsgen_selftest_") as tmp:
        for layout in fsgen.LAYOUTS.values():
            if subs and not any(s.lower() in layout.name.lower() for s in subs):
                continue
            cases = [run_case(s4, layout, tmp, "plain")]
            cases += [run_case(s4, layout, tmp, "name=" + a, filename=a) for a in layout.alt_filenames]
            cases.append(run_case(s4, layout, tmp, "fullw", full_width=True))
            cases.append(run_case(s4, layout, tmp, "null", with_nulls=True))
            samples[layout.name] = cases[0]["sample"]
            for c in cases:
                hard = strict or c["case"] == "plain" or c["case"].startswith("name=")
                if not c["notes"]:
                    res = "ok"
                elif not layout.selectable and c["chosen"] != layout.name:
                    res = "n/a (s4 cannot select this layout)"
                elif hard:
                    res = "FAIL"
                    failed += 1
                else:
                    res = "DEVIATION"
                if not layout.selectable and c["chosen"] == layout.name:
                    res, failed = "FAIL (documented as unselectable but was chosen)", failed + 1
                rows.append((layout.name, layout.size, c["case"], c["file"], c["chosen"], c["lines"],
                             res, "; ".join(c["notes"])))
    w = [max(len(str(r[i])) for r in rows + [("layout", "size", "case", "file", "chosen type", "lines", "result")])
         for i in range(7)]
    head = ("layout", "size", "case", "file", "chosen type", "lines", "result")
    print("  ".join(str(h).ljust(w[i]) for i, h in enumerate(head)))
    for r in rows:
        print("  ".join(str(r[i]).ljust(w[i]) for i in range(7)).rstrip())
        if r[7] and (verbose or r[6] != "ok"):
            print("      ^ " + r[7])
    if verbose:
        print("\nsample printed line per layout (record 0 of the plain case):")
        for name, s in samples.items():
            print("%s\n    %s" % (name, s.decode("latin-1")))
    print("\n%d case(s) run, %d failed" % (len(rows), failed))
    return 1 if failed else 0


if __name__ == "__main__":
    sys.exit(main(sys.argv[1:]))
