//! In-process harness for the /verif monitors. Links /repo's s4lib built with
//! `--cfg s4_verif`.
//!
//!   s4verif lines <file> <bsz_lo> <bsz_hi> <seed>
//!   s4verif syslines <file> <heads-file> <bsz_lo> <bsz_hi> <seed> <tz_offset_secs>
//!   s4verif classify            (names on stdin, one per line, hex encoded)
//!   s4verif evtx-dump <file>
use std::io::{BufRead, Read, Write};

use s4lib::common::{FileOffset, FileType, FileTypeArchive, FileTypeTextEncoding, ResultS3};
use s4lib::readers::linereader::LineReader;
use s4lib::readers::syslinereader::SyslineReader;

struct Rng(u64);
impl Rng {
    fn next(&mut self) -> u64 {
        self.0 = self.0.wrapping_add(0x9E37_79B9_7F4A_7C15);
        let mut z = self.0;
        z = (z ^ (z >> 30)).wrapping_mul(0xBF58_476D_1CE4_E5B9);
        z = (z ^ (z >> 27)).wrapping_mul(0x94D0_49BB_1331_11EB);
        z ^ (z >> 31)
    }
}

const TEXT: FileType = FileType::Text {
    archival_type: FileTypeArchive::Normal,
    encoding_type: FileTypeTextEncoding::Utf8Ascii,
};

/// reference: (start, end_exclusive) of every line; a line ends after its '\n' or at EOF
fn ref_lines(data: &[u8]) -> Vec<(usize, usize)> {
    let mut v = Vec::new();
    let mut beg = 0usize;
    for (i, b) in data.iter().enumerate() {
        if *b == b'\n' {
            v.push((beg, i + 1));
            beg = i + 1;
        }
    }
    if beg < data.len() {
        v.push((beg, data.len()));
    }
    v
}

fn line_containing(lines: &[(usize, usize)], fo: usize) -> Option<usize> {
    // binary search
    let mut lo = 0usize;
    let mut hi = lines.len();
    while lo < hi {
        let mid = (lo + hi) / 2;
        if fo < lines[mid].0 {
            hi = mid;
        } else if fo >= lines[mid].1 {
            lo = mid + 1;
        } else {
            return Some(mid);
        }
    }
    None
}

fn check_find_line(
    lr: &mut LineReader,
    data: &[u8],
    lines: &[(usize, usize)],
    fo: usize,
    bsz: u64,
    pass: &str,
    mism: &mut Vec<String>,
) -> bool {
    let want = line_containing(lines, fo);
    match lr.find_line(fo as FileOffset) {
        ResultS3::Found((fo_next, linep)) => match want {
            None => {
                mism.push(format!("bsz={} pass={} fo={}: Found but offset is at/after EOF (filesz {})", bsz, pass, fo, data.len()));
                false
            }
            Some(k) => {
                let (b, e) = lines[k];
                let got = linep.verif_bytes();
                if got != data[b..e] || fo_next as usize != e || linep.fileoffset_begin() as usize != b {
                    mism.push(format!(
                        "bsz={} pass={} fo={}: got line [{}..{}) len {} fo_next {}, want [{}..{}) len {}",
                        bsz, pass, fo, linep.fileoffset_begin(), linep.fileoffset_end() + 1, got.len(), fo_next, b, e, e - b
                    ));
                    false
                } else {
                    true
                }
            }
        },
        ResultS3::Done => {
            if want.is_some() {
                mism.push(format!("bsz={} pass={} fo={}: Done but a line contains the offset", bsz, pass, fo));
                false
            } else {
                true
            }
        }
        ResultS3::Err(err) => {
            mism.push(format!("bsz={} pass={} fo={}: Err {}", bsz, pass, fo, err));
            false
        }
    }
}

fn filetype_of(path: &str) -> FileType {
    let at = if path.ends_with(".gz") {
        FileTypeArchive::Gz
    } else if path.ends_with(".bz2") {
        FileTypeArchive::Bz2
    } else if path.ends_with(".xz") {
        FileTypeArchive::Xz
    } else if path.ends_with(".lz4") {
        FileTypeArchive::Lz4
    } else {
        FileTypeArchive::Normal
    };
    FileType::Text { archival_type: at, encoding_type: FileTypeTextEncoding::Utf8Ascii }
}

/// `lines <file> <lo> <hi> <seed> [<plain-reference-file>]`
/// When the file is compressed (suffix) the reference bytes come from the
/// plain reference file and only forward walks are made (a streamed file is
/// read front to back).
fn cmd_lines(args: &[String]) -> i32 {
    let path = &args[0];
    let lo: u64 = args[1].parse().unwrap();
    let hi: u64 = args[2].parse().unwrap();
    let seed: u64 = args[3].parse().unwrap();
    let ft = filetype_of(path);
    let streamed = !matches!(ft, FileType::Text { archival_type: FileTypeArchive::Normal, .. });
    if streamed {
        return cmd_lines_streamed(path, &args[4], lo, hi, ft);
    }
    let data = std::fs::read(path).unwrap();
    let lines = ref_lines(&data);
    let mut mism: Vec<String> = Vec::new();
    let mut queries: u64 = 0;
    let mut pairs: u64 = 0;
    for bsz in lo..=hi {
        pairs += 1;
        // forward walk
        let mut lr = LineReader::new(path.clone(), TEXT, bsz).unwrap();
        let mut fo = 0usize;
        let mut steps = 0usize;
        loop {
            queries += 1;
            let want = line_containing(&lines, fo);
            if !check_find_line(&mut lr, &data, &lines, fo, bsz, "forward", &mut mism) {
                break;
            }
            match want {
                Some(k) => fo = lines[k].1,
                None => break,
            }
            steps += 1;
            if steps > lines.len() + 2 {
                mism.push(format!("bsz={} forward walk does not terminate", bsz));
                break;
            }
        }
        // backward, fresh reader
        let mut lr = LineReader::new(path.clone(), TEXT, bsz).unwrap();
        for k in (0..lines.len()).rev() {
            queries += 1;
            // query at the last byte of the line, then at its first byte
            check_find_line(&mut lr, &data, &lines, lines[k].1 - 1, bsz, "backward", &mut mism);
            check_find_line(&mut lr, &data, &lines, lines[k].0, bsz, "backward", &mut mism);
        }
        // random, fresh reader (answers must not depend on cache history)
        let mut lr = LineReader::new(path.clone(), TEXT, bsz).unwrap();
        let mut rng = Rng(seed ^ bsz.wrapping_mul(0x1000_0001));
        let nq = 3 * lines.len() + 4;
        for _ in 0..nq {
            queries += 1;
            let fo = (rng.next() % (data.len() as u64 + 2)) as usize;
            check_find_line(&mut lr, &data, &lines, fo, bsz, "random", &mut mism);
        }
        if mism.len() > 20 {
            break;
        }
    }
    println!("{{\"pairs\": {}, \"queries\": {}, \"lines\": {}, \"mismatches\": {}}}", pairs, queries, lines.len(), mism.len());
    for m in mism.iter().take(10) {
        println!("MISMATCH {}", m);
    }
    if mism.is_empty() { 0 } else { 1 }
}

fn cmd_lines_streamed(path: &String, refpath: &String, lo: u64, hi: u64, ft: FileType) -> i32 {
    let data = std::fs::read(refpath).unwrap();
    let lines = ref_lines(&data);
    let mut mism: Vec<String> = Vec::new();
    let mut queries: u64 = 0;
    let mut pairs: u64 = 0;
    for bsz in lo..=hi {
        pairs += 1;
        let mut lr = match LineReader::new(path.clone(), ft, bsz) {
            Ok(v) => v,
            Err(e) => {
                mism.push(format!("bsz={} LineReader::new Err {}", bsz, e));
                continue;
            }
        };
        let mut fo = 0usize;
        let mut steps = 0usize;
        loop {
            queries += 1;
            let want = line_containing(&lines, fo);
            if !check_find_line(&mut lr, &data, &lines, fo, bsz, "forward-streamed", &mut mism) {
                break;
            }
            match want {
                Some(k) => fo = lines[k].1,
                None => break,
            }
            steps += 1;
            if steps > lines.len() + 2 {
                mism.push(format!("bsz={} forward walk does not terminate", bsz));
                break;
            }
        }
        if mism.len() > 20 {
            break;
        }
    }
    println!("{{\"pairs\": {}, \"queries\": {}, \"lines\": {}, \"mismatches\": {}}}", pairs, queries, lines.len(), mism.len());
    for m in mism.iter().take(10) {
        println!("MISMATCH {}", m);
    }
    if mism.is_empty() { 0 } else { 1 }
}

/// heads-file: one decimal offset per line = start of each message head line (ascending)
fn cmd_syslines(args: &[String]) -> i32 {
    let path = &args[0];
    let heads: Vec<usize> = std::fs::read_to_string(&args[1])
        .unwrap()
        .lines()
        .filter(|l| !l.is_empty())
        .map(|l| l.parse().unwrap())
        .collect();
    let lo: u64 = args[2].parse().unwrap();
    let hi: u64 = args[3].parse().unwrap();
    let seed: u64 = args[4].parse().unwrap();
    let tz_secs: i32 = args[5].parse().unwrap();
    let data = std::fs::read(path).unwrap();
    let tz = chrono::FixedOffset::east_opt(tz_secs).unwrap();
    // reference messages: [heads[i], heads[i+1]) , last to EOF
    let mut msgs: Vec<(usize, usize)> = Vec::new();
    for (i, h) in heads.iter().enumerate() {
        let e = if i + 1 < heads.len() { heads[i + 1] } else { data.len() };
        msgs.push((*h, e));
    }
    let mut mism: Vec<String> = Vec::new();
    let mut queries: u64 = 0;
    let mut pairs: u64 = 0;
    let first = if heads.is_empty() { data.len() } else { heads[0] };
    for bsz in lo..=hi {
        pairs += 1;
        for pass in ["forward", "random"] {
            let mut slr = match SyslineReader::new(path.clone(), TEXT, bsz, tz) {
                Ok(v) => v,
                Err(e) => {
                    mism.push(format!("bsz={} SyslineReader::new Err {}", bsz, e));
                    continue;
                }
            };
            let mut rng = Rng(seed ^ bsz.wrapping_mul(0x2000_0003));
            let mut concat: Vec<u8> = Vec::new();
            let mut fo = 0usize;
            let nq = if pass == "forward" { msgs.len() + 2 } else { 2 * msgs.len() + 2 };
            for _q in 0..nq {
                if pass == "random" {
                    fo = (rng.next() % (data.len() as u64 + 1)) as usize;
                }
                queries += 1;
                // reference answer: the message containing fo, or if fo is before the first head the first message
                let want = if fo < first {
                    if msgs.is_empty() { None } else { Some(0) }
                } else {
                    line_containing(&msgs, fo)
                };
                match slr.find_sysline(fo as FileOffset) {
                    ResultS3::Found((fo_next, syslinep)) => match want {
                        None => mism.push(format!("bsz={} pass={} fo={}: Found but no message at/after offset", bsz, pass, fo)),
                        Some(k) => {
                            let (b, e) = msgs[k];
                            let got = syslinep.verif_bytes();
                            if got != data[b..e] || fo_next as usize != e {
                                mism.push(format!(
                                    "bsz={} pass={} fo={}: got message [{}..{}] len {} fo_next {}, want [{}..{}) len {}",
                                    bsz, pass, fo, syslinep.fileoffset_begin(), syslinep.fileoffset_end(), got.len(), fo_next, b, e, e - b
                                ));
                            } else if pass == "forward" {
                                concat.extend_from_slice(&got);
                            }
                            if pass == "forward" {
                                fo = e;
                            }
                        }
                    },
                    ResultS3::Done => {
                        if want.is_some() {
                            mism.push(format!("bsz={} pass={} fo={}: Done but a message contains the offset", bsz, pass, fo));
                        }
                        if pass == "forward" {
                            break;
                        }
                    }
                    ResultS3::Err(err) => {
                        mism.push(format!("bsz={} pass={} fo={}: Err {}", bsz, pass, fo, err));
                        break;
                    }
                }
                if mism.len() > 20 {
                    break;
                }
            }
            if pass == "forward" && mism.is_empty() && concat != data[first..] {
                mism.push(format!("bsz={} forward concatenation of messages ({} bytes) != file suffix ({} bytes)", bsz, concat.len(), data.len() - first));
            }
        }
        if mism.len() > 20 {
            break;
        }
    }
    println!("{{\"pairs\": {}, \"queries\": {}, \"messages\": {}, \"mismatches\": {}}}", pairs, queries, msgs.len(), mism.len());
    for m in mism.iter().take(10) {
        println!("MISMATCH {}", m);
    }
    if mism.is_empty() { 0 } else { 1 }
}

fn unhex(s: &str) -> Vec<u8> {
    let b = s.as_bytes();
    let mut v = Vec::with_capacity(b.len() / 2);
    let mut i = 0;
    while i + 1 < b.len() {
        let h = (b[i] as char).to_digit(16).unwrap_or(0) as u8;
        let l = (b[i + 1] as char).to_digit(16).unwrap_or(0) as u8;
        v.push(h << 4 | l);
        i += 2;
    }
    v
}

fn cmd_classify(args: &[String]) -> i32 {
    use std::os::unix::ffi::OsStrExt;
    let unparseable_are_text: bool = args.first().map(|s| s == "text").unwrap_or(true);
    let stdin = std::io::stdin();
    let stdout = std::io::stdout();
    let mut out = std::io::BufWriter::new(stdout.lock());
    for line in stdin.lock().lines() {
        let line = line.unwrap();
        let name = unhex(line.trim());
        let t0 = std::time::Instant::now();
        let r = std::thread::Builder::new()
            .stack_size(512 * 1024)
            .spawn(move || {
                let os = std::ffi::OsStr::from_bytes(&name);
                let p = std::path::Path::new(os);
                std::panic::catch_unwind(|| {
                    format!("{:?}", s4lib::readers::filepreprocessor::path_to_filetype(p, unparseable_are_text))
                })
            })
            .unwrap()
            .join();
        let us = t0.elapsed().as_micros();
        match r {
            Ok(Ok(s)) => writeln!(out, "OK\t{}\t{}", us, s).unwrap(),
            Ok(Err(_)) => writeln!(out, "PANIC\t{}\t", us).unwrap(),
            Err(_) => writeln!(out, "THREADFAIL\t{}\t", us).unwrap(),
        }
    }
    0
}

fn cmd_evtx_dump(args: &[String]) -> i32 {
    let mut parser = match evtx::EvtxParser::from_path(&args[0]) {
        Ok(p) => p,
        Err(e) => {
            println!("ERR {}", e);
            return 1;
        }
    };
    let mut n = 0;
    for rec in parser.records() {
        match rec {
            Ok(r) => {
                let ts = r.timestamp;
                println!("{}\t{}\t{}", r.event_record_id, ts.timestamp_nanos_opt().unwrap_or(i64::MIN), r.data.len());
                n += 1;
            }
            Err(e) => println!("RECERR {}", e),
        }
    }
    eprintln!("{} records", n);
    0
}

fn main() {
    let args: Vec<String> = std::env::args().collect();
    if args.len() < 2 {
        eprintln!("usage: s4verif lines|syslines|classify|evtx-dump ...");
        std::process::exit(2);
    }
    let rest = &args[2..];
    let rc = match args[1].as_str() {
        "lines" => cmd_lines(rest),
        "syslines" => cmd_syslines(rest),
        "classify" => cmd_classify(rest),
        "evtx-dump" => cmd_evtx_dump(rest),
        _ => {
            let mut s = String::new();
            let _ = std::io::stdin().read_to_string(&mut s);
            2
        }
    };
    std::process::exit(rc);
}
