"""C10 - event-log files: every record once, ordered by creation time.

Oracle: an independent dump made with the `evtx` crate directly (harness
`s4verif evtx-dump`: EventRecordID and header time of every record in file order;
none of s4's ordering / filtering code). The EventRecordID sequence in s4's stdout
must equal the stable sort by time of the dump, restricted to the window; container
forms must print the same bytes as the plain file. Inputs: the shipped .evtx files
and variants with record-header FILETIMEs patched in place (ties, reversed runs,
all equal, sub-millisecond and one-tick differences, cross-chunk inversions); a
variant is admitted only if the independent dump reads the patched times back.
"""
import os
import re
import struct

from vlib import core, fixtures, gen

LEVEL = "exploration"

RID = re.compile(rb"<EventRecordID>(\d+)</EventRecordID>")
FT_EPOCH = 116444736000000000   # 1601 -> 1970 in 100 ns ticks


def record_headers(data):
    """(offset, size, record id, filetime) of every live record: file header 4096 bytes, then 64 KiB chunks
    ('ElfChnk\\0'; records from chunk offset 512 up to the chunk's free-space offset at +48)"""
    out = []
    pos = 4096
    while pos + 512 <= len(data):
        if data[pos:pos + 8] != b"ElfChnk\x00":
            pos += 65536
            continue
        free = struct.unpack_from("<I", data, pos + 48)[0]
        rp = pos + 512
        end = pos + min(free, 65536)
        while rp + 24 <= end and data[rp:rp + 4] == b"\x2a\x2a\x00\x00":
            size, rid, ft = struct.unpack_from("<IQQ", data, rp + 4)
            if size < 24 or rp + size > end:
                break
            out.append((rp, size, rid, ft))
            rp += size
        pos += 65536
    return out


def patch(data, hdrs, mode, rng):
    b = bytearray(data)
    n = len(hdrs)
    fts = [h[3] for h in hdrs]
    if mode == "ties":
        for _ in range(max(2, n // 8)):
            i = rng.randrange(n - 1)
            k = rng.randint(2, 4)
            for j in range(i, min(n, i + k)):
                fts[j] = fts[i]
    elif mode == "all-equal":
        fts = [fts[0]] * n
    elif mode == "reversed-runs":
        i = 0
        while i < n:
            k = rng.randint(1, 6)
            fts[i:i + k] = sorted(fts[i:i + k], reverse=True)
            i += k
    elif mode == "sub-ms":
        base = fts[0] - fts[0] % 10_000_000
        for j in range(n):
            # all within a few milliseconds, microsecond apart, stored in shuffled order
            fts[j] = base + rng.randrange(0, 30000) * 10
    elif mode == "one-tick":
        for j in range(1, n, 2):
            fts[j] = fts[j - 1] - rng.choice([1, 9, 10, 11])   # 100 ns ticks: below / at / above a microsecond
    elif mode == "shuffled":
        rng.shuffle(fts)
    elif mode == "displaced":
        # the stored order stays as shipped except for a few records displaced by (nearly) the whole file: records near the
        # end carry the earliest times, records near the start the latest
        lo, hi = min(fts), max(fts)
        for k, j in enumerate(rng.sample(range(max(0, n - max(3, n // 10)), n), min(n, rng.randint(1, 3)))):
            fts[j] = lo - (k + 1) * rng.choice([10, 10_000_000, 36_000_000_000])
        for k, j in enumerate(rng.sample(range(0, max(1, n // 10)), min(max(1, n // 10), rng.randint(0, 2)))):
            fts[j] = hi + (k + 1) * rng.choice([10, 10_000_000])
    for (pos, size, rid, _), ft in zip(hdrs, fts):
        struct.pack_into("<Q", b, pos + 16, ft)
    return bytes(b)


def dump(h, path):
    r = core.run([h, "evtx-dump", path], core.base_env(), timeout=120)
    recs = []
    for ln in r.out.decode("utf-8", "replace").splitlines():
        p = ln.split("\t")
        if len(p) == 3 and p[0].isdigit():
            recs.append((int(p[0]), int(p[1])))
    return recs, r


def bound_str(ns, off=0):
    y, mo, d, hh, mi, s, n, _ = gen.civil(ns, off)
    return "%04d-%02d-%02dT%02d:%02d:%02d.%06d%s" % (y, mo, d, hh, mi, s, n // 1000, gen.off_str(off))


def job(args):
    s4, path, wargs, tmpdir, bsz = args
    return core.run([s4, "--color", "never", "-t=+00:00", "--blocksz", str(bsz)] + wargs + [path], core.base_env(tmpdir=tmpdir), timeout=300)


def run(ctx):
    s4 = core.build_s4()
    h = core.build_harness()
    rng = ctx.rng
    d = ctx.casedir("evtx")
    ctx.rule = ("2 shipped .evtx files + header-time patched variants (ties, all equal, reversed runs, sub-millisecond, one 100 ns tick, shuffled, a few records displaced by "
                "nearly the whole file) x "
                "windows with bounds before/on/+-1us/between/after record times and A=B x plain/gz/bz2/xz/lz4/tar; distinct = (file, variant, window "
                "class, container)")
    ctx.assumptions = ["the evtx crate decodes record headers correctly and does not verify chunk checksums by default"]
    variants = []
    for src in fixtures.evtxs():
        data = open(src, "rb").read()
        base = os.path.basename(src)[:-5]
        variants.append((base, "orig", data))
        hdrs = record_headers(data)
        if len(hdrs) < 4:
            continue
        modes = ["ties", "all-equal", "reversed-runs", "sub-ms", "one-tick", "shuffled", "displaced"]
        for m in modes:
            for rep in range(ctx.pick(8, 16)):
                variants.append((base, "%s-%d" % (m, rep), patch(data, hdrs, m, rng)))
    jobs, meta = [], []
    for base, vname, data in variants:
        p = gen.write(os.path.join(d, "%s-%s.evtx" % (base, vname)), data)
        recs, r = dump(h, p)
        if vname != "orig":
            hdrs = record_headers(data)
            want_ft = sorted((rid, (ft - FT_EPOCH) // 10 * 1000) for _, _, rid, ft in hdrs)
            if sorted(recs) != want_ft:
                ctx.count("variants not admitted (independent dump does not read the patched times back)")
                continue
        if not recs and "noevents" not in base:
            raise core.HarnessError("independent evtx dump read no records from %s: %r" % (p, r.err[:200]))
        inst = sorted({t for _, t in recs})
        nwin = ctx.pick(16, 40)
        wins = [(None, None, "none")]
        for _ in range(nwin):
            if not inst:
                break
            k = rng.choice(["on", "on", "a=b", "pm1us", "between", "outside", "a-only", "b-only", "b-low", "a-high"])
            x, y = sorted([rng.choice(inst), rng.choice(inst)])
            if k == "b-low":
                # only the few earliest records are inside: wherever they are stored, they are due
                x, y, k = None, rng.choice(inst[:4]), rng.choice(["b-only", "b-low-with-a"])
                if k == "b-low-with-a":
                    x = inst[0] - rng.choice([0, gen.NS])
            elif k == "a-high":
                x, y, k = rng.choice(inst[-4:]), None, "a-only"
            if k == "a=b":
                y = x
            elif k == "pm1us":
                x, y = x + rng.choice([-1000, 1000]), y + rng.choice([-1000, 1000])
                if x > y:
                    x, y = y, x
            elif k == "between":
                x, y = x + 500_000, y + 500_000
            elif k == "outside":
                x, y = inst[-1] + gen.NS, inst[-1] + 2 * gen.NS
            if k == "a-only":
                wins.append((x, None, k))
            elif k == "b-only":
                wins.append((None, y, k))
            else:
                wins.append((x, y, k))
        conts = [None] + rng.sample(["gz", "bz2", "xz", "lz4", "tar"], ctx.pick(2, 5))
        for cont in conts:
            if cont is None:
                path = p
            elif cont == "tar":
                path = gen.write(p + ".tar", gen.tar_bytes([("dir/" + os.path.basename(p), data, 1_600_000_000)]))
            else:
                kw = {"split": rng.choice([65536, 5000]), "stored": True} if cont == "lz4" else {}
                path = gen.write(p + "." + cont, gen.contain(data, cont, **kw))
            for a, b, wk in (wins if cont is None else wins[:2]):
                wargs = (["-a", bound_str(a, rng.choice([0, 0, 330, -480, 765]))] if a is not None else []) + \
                        (["-b", bound_str(b, rng.choice([0, 0, 330, -480, 765]))] if b is not None else [])
                jobs.append((s4, path, wargs, d, rng.choice([65536, 4096, 1 << 20])))
                meta.append((base, vname, cont, a, b, wk, recs))
    plain_out = {}
    for (base, vname, cont, a, b, wk, recs), r in zip(meta, core.pmap(job, jobs)):
        if r.timed_out:
            ctx.inconc("watchdog")
            continue
        ctx.evaluated(1, (base, vname.split("-")[0], wk, cont))
        ctx.count("variant:%s" % vname.rsplit("-", 1)[0])
        ctx.count("window:%s" % wk)
        ctx.count("container:%s" % cont)
        keyed = sorted(((t, i, rid) for i, (rid, t) in enumerate(recs)), key=lambda x: (x[0], x[1]))
        want = [rid for t, i, rid in keyed if (a is None or t >= a) and (b is None or t <= b)]
        ties = len(recs) - len({t for _, t in recs})
        if ties:
            ctx.count("records sharing a creation time", ties)
        got = [int(x) for x in RID.findall(r.out)]
        info = {"argv": r.argv, "env": r.env, "stderr": r.err[-300:], "file": base, "variant": vname, "container": cont}
        if r.rc not in (0, 1):
            ctx.violation("C10|exit|rc=%s" % r.rc, "exit status %s" % r.rc, info=info)
            continue
        if cont is None:
            plain_out[(base, vname, a, b)] = r.out
        elif (base, vname, a, b) in plain_out and plain_out[(base, vname, a, b)] != r.out:
            ctx.violation("C10|container-differs|%s" % cont, "%s/%s in %s prints %d bytes, plain prints %d" % (base, vname, cont, len(r.out), len(plain_out[(base, vname, a, b)])),
                          info=info)
        if got == want:
            if len(ctx.samples) < 5 and vname != "orig" and wk != "none" and want:
                ctx.sample({"file": base, "variant": vname, "container": cont, "window": wk, "argv": r.argv[1:], "records_selected": len(want), "of": len(recs)})
            continue
        if sorted(got) == sorted(want):
            tmap = dict(recs)
            k = next(i for i in range(len(got)) if got[i] != want[i])
            eq = tmap.get(got[k]) == tmap.get(want[k])
            sig = "C10|order|%s" % ("equal-time-records-not-in-file-order" if eq else "not-in-creation-time-order")
            if not eq:
                sig += "|" + vname.rsplit("-", 1)[0]
            what = "record %d printed where %d is due (times %s / %s)" % (got[k], want[k], tmap.get(got[k]), tmap.get(want[k]))
        elif set(got) < set(want) or (len(got) < len(want) and set(got) <= set(want)):
            missing = [x for x in want if x not in set(got)]
            tmap = dict(recs)
            edge = "t==A" if tmap.get(missing[0]) == a else ("t==B" if tmap.get(missing[0]) == b else "interior")
            sig, what = "C10|records-missing|%s|window-%s" % (edge, wk), "%d of %d records printed; first missing %d" % (len(got), len(want), missing[0])
        elif len(got) > len(want):
            sig, what = "C10|records-extra-or-repeated|window-%s" % wk, "%d records printed, %d due" % (len(got), len(want))
        else:
            sig, what = "C10|records-differ|window-%s" % wk, "%d records printed, %d due" % (len(got), len(want))
        ctx.violation(sig, what, files={"observed.ids": (" ".join(map(str, got))).encode(), "expected.ids": (" ".join(map(str, want))).encode()}, info=info)
