"""C19 - the summary agrees with what was printed.

Oracles: (1) stdout with --summary == stdout without; (2) 'Printed bytes' ==
len(stdout) (colour escapes excluded); (3) printed message counts by kind ==
generator ground truth under the window; (4) 'Printed lines' == text lines in the
printed text messages; (5) per-file printed bytes sum to total - separators -
supplied final newlines, and per-file counts sum to the totals; (6) first/last
printed datetimes and resolved filter bounds are those of the run (second
resolution, compared in UTC).
"""
import os
import re

from checks import c13
from vlib import cases, core, fsgen, gen

LEVEL = "exploration"

DT_RE = re.compile(r"\((\d{4})-(\d\d)-(\d\d) (\d\d):(\d\d):(\d\d) \+00:00\)")


def parse_dt_utc(val):
    m = DT_RE.search(val)
    if not m:
        return None
    y, mo, d, h, mi, s = map(int, m.groups())
    return gen.instant(y, mo, d, h, mi, s) // gen.NS


def parse_summary(err):
    """-> (files: [{name, printed:{k:int}, ...}], program: {k: str})"""
    text = err.decode("utf-8", "replace")
    files, prog = [], {}
    cur, section = None, None
    in_prog = False
    for ln in text.splitlines():
        if ln.startswith("File: "):
            cur = {"name": ln[6:], "Printed": {}, "Processed": {}, "About": {}}
            files.append(cur)
            section = None
            continue
        if ln.startswith("Program Summary:"):
            in_prog, cur = True, None
            continue
        if in_prog:
            if ":" in ln:
                k, v = ln.split(":", 1)
                prog[k.strip()] = v.strip()
            continue
        if cur is not None:
            if ln.startswith("  ") and not ln.startswith("      ") and ln.strip().endswith(":"):
                section = ln.strip()[:-1]
                continue
            if section in ("Printed", "Processed", "About") and ln.startswith("      ") and ":" in ln:
                k, v = ln.strip().split(":", 1)
                cur[section].setdefault(k.strip(), v.strip())
    return files, prog


def to_int(v):
    m = re.match(r"\s*(\d+)", v or "")
    return int(m.group(1)) if m else None


def bound_str(ns):
    y, mo, d, h, mi, s, n, _ = gen.civil(ns, 0)
    return "%04d-%02d-%02dT%02d:%02d:%02d.%06d+00:00" % (y, mo, d, h, mi, s, n // 1000)


def job(args):
    s4, d, srcs, o, wargs, color = args
    files = [s.arg for s in srcs]
    env = core.base_env(tz=o["tzenv"][0])
    a = [s4] + c13.argv_of(o, color) + wargs
    r0 = core.run(a + files, env, cwd=d, timeout=120)
    r1 = core.run(a + ["--summary"] + files, env, cwd=d, timeout=120)
    return r0, r1


def run(ctx):
    s4 = core.build_s4()
    rng = ctx.rng
    ncases = ctx.pick(450, 6000)
    ctx.rule = ("C13's source sets (text + fixed-struct, odd names) x decoration options x windows (none / on instants / empty) x "
                "colour; distinct = (kinds, window kind, file option, datetime option, separator, colour)")
    jobs, meta = [], []
    for cid in range(ncases):
        d, srcs = c13.make_case(ctx, rng, cid)
        o = c13.s4_options(rng)
        inst = sorted({(m.ns if s.kind == "text" else m[0]) for s in srcs for m in s.msgs})
        a = b = None
        wk = "none"
        if inst and rng.random() < 0.6:
            wk = rng.choice(["a", "b", "ab", "empty"])
            if wk == "empty":
                a = inst[-1] + 5 * gen.NS
            else:
                x, y = sorted([rng.choice(inst), rng.choice(inst)])
                a = x // 1000 * 1000 if "a" in wk else None
                b = (y // 1000 * 1000 + 1000) if "b" in wk else None
        wargs = (["-a", bound_str(a)] if a is not None else []) + (["-b", bound_str(b)] if b is not None else [])
        color = rng.choice(["never", "never", "always"])
        jobs.append((s4, d, srcs, o, wargs, color))
        meta.append((d, srcs, o, a, b, wk, color))
    run_other_kinds(ctx, s4)
    for (d, srcs, o, a, b, wk, color), (r0, r1) in zip(meta, core.pmap(job, jobs)):
        if r0.timed_out or r1.timed_out:
            ctx.inconc("watchdog")
            continue
        kinds = tuple(sorted({s.kind for s in srcs}))
        ctx.evaluated(1, (kinds, wk, o["file"], o["dt"], o["sep"][0], color))
        ctx.count("window:%s" % wk)
        ctx.count("colour:%s" % color)
        info = {"argv": r1.argv, "env": r1.env, "cwd": "case", "summary_tail": r1.err[-1500:]}

        def bad(sig, what):
            ctx.violation(sig, what, src_dir=d, files={"stdout": r1.out, "stderr": r1.err}, info=info)

        if r0.out != r1.out:
            bad("C19|stdout-changes-with-summary", "stdout differs between runs with and without --summary")
            continue
        if r0.err and not r1.err.startswith(r0.err[:0]):
            pass
        files, prog = parse_summary(r1.err)
        if "Printed bytes" not in prog:
            bad("C19|no-program-summary", "no 'Printed bytes' line on stderr")
            continue
        out = c13.SGR.sub(b"", r1.out) if color == "always" else r1.out
        # ground truth under the window
        sel = []   # (src, ns, nlines, supplied_newline)
        for s in srcs:
            n = len(s.msgs)
            for i, m in enumerate(s.msgs):
                ns = m.ns if s.kind == "text" else m[0]
                if (a is not None and ns < a) or (b is not None and ns > b):
                    continue
                if s.kind == "text":
                    pb = s.printed(i)
                    stored = gen.log_bytes([s.msgs[-1]], False) if (i == n - 1 and not s.trailing_newline) else None
                    supplied = stored is not None and not stored.endswith(b"\n")
                    nl = pb.count(b"\n")
                    sel.append((s, ns, nl, supplied))
                else:
                    sel.append((s, ns, 0, False))
        n_text = sum(1 for x in sel if x[0].kind == "text")
        n_fs = sum(1 for x in sel if x[0].kind == "fixedstruct")
        lines_text = sum(x[2] for x in sel)
        seplen = len(o["sep"][1])
        supplied = sum(1 for x in sel if x[3])
        pb = to_int(prog.get("Printed bytes"))
        if pb != len(out):
            bad("C19|printed-bytes-differs-from-stdout", "summary 'Printed bytes' = %s but stdout has %d bytes (colour escapes excluded)" % (pb, len(out)))
        if to_int(prog.get("Printed syslines")) != n_text:
            bad("C19|printed-syslines-count", "summary 'Printed syslines' = %s, %d text messages lie in the window" % (prog.get("Printed syslines"), n_text))
        if to_int(prog.get("Printed fixedstruct")) != n_fs:
            bad("C19|printed-fixedstruct-count", "summary 'Printed fixedstruct' = %s, %d records lie in the window" % (prog.get("Printed fixedstruct"), n_fs))
        if to_int(prog.get("Printed lines")) != lines_text:
            bad("C19|printed-lines-count", "summary 'Printed lines' = %s, printed text messages hold %d lines" % (prog.get("Printed lines"), lines_text))
        if to_int(prog.get("Printed evtx events")) or to_int(prog.get("Printed journal events")):
            bad("C19|phantom-kind-count", "evtx/journal counts non-zero without such sources")
        # per-file sums
        fb = sum(to_int(f["Printed"].get("bytes")) or 0 for f in files)
        fl = sum(to_int(f["Printed"].get("lines")) or 0 for f in files)
        fm = sum((to_int(f["Printed"].get("syslines")) or 0) + (to_int(f["Printed"].get("entries")) or 0) for f in files)
        want_fb = len(out) - seplen * len(sel) - supplied
        if fb != want_fb:
            bad("C19|per-file-bytes-do-not-add-up", "per-file printed bytes sum to %d, total %d - %d separators x %d - %d supplied newlines = %d" % (
                fb, len(out), len(sel), seplen, supplied, want_fb))
        if fl != lines_text:
            bad("C19|per-file-lines-do-not-add-up", "per-file lines sum to %d, total %d" % (fl, lines_text))
        if fm != len(sel):
            bad("C19|per-file-messages-do-not-add-up", "per-file messages sum to %d, printed %d" % (fm, len(sel)))
        # datetimes
        first = parse_dt_utc(prog.get("Datetime printed first", ""))
        last = parse_dt_utc(prog.get("Datetime printed last", ""))
        if sel:
            wf, wl = min(x[1] for x in sel) // gen.NS, max(x[1] for x in sel) // gen.NS
            if first != wf or last != wl:
                bad("C19|first-last-printed-datetime", "summary first/last = %s/%s, run's = %s/%s" % (first, last, wf, wl))
        elif first is not None or last is not None:
            bad("C19|first-last-printed-datetime|nothing-printed", "first/last reported although nothing was printed")
        fa = parse_dt_utc(prog.get("Datetime filter -a", ""))
        fbb = parse_dt_utc(prog.get("Datetime filter -b", ""))
        if (a is None) != (fa is None) or (a is not None and fa != a // gen.NS):
            bad("C19|filter-a-bound", "summary -a = %s, passed %s" % (fa, a))
        if (b is None) != (fbb is None) or (b is not None and fbb != b // gen.NS):
            bad("C19|filter-b-bound", "summary -b = %s, passed %s" % (fbb, b))
        if len(ctx.samples) < 4 and sel and o["file"]:
            ctx.sample({"argv": r1.argv[1:], "Printed bytes": pb, "stdout_bytes": len(out), "messages": len(sel),
                        "per_file_bytes": fb, "separators": seplen * len(sel), "supplied_newlines": supplied})


# --------------------------------------------------------------------------
# evtx / journal sources: counts against the independent readers

def other_job(args):
    s4, files, extra, cwd = args
    env = core.base_env(tmpdir=cwd)
    r0 = core.run([s4, "--color", "never", "-t=+00:00"] + extra + files, env, cwd=cwd, timeout=300)
    r1 = core.run([s4, "--color", "never", "-t=+00:00"] + extra + ["--summary"] + files, env, cwd=cwd, timeout=300)
    return r0, r1


def run_other_kinds(ctx, s4):
    from checks import c09, c10
    from vlib import fixtures
    rng = ctx.rng
    h = core.build_harness()
    pool = []
    for p in fixtures.evtxs():
        recs, _ = c10.dump(h, p)
        pool.append(("evtx", p, sorted(t // 1000 for _, t in recs)))
    for p in fixtures.journals():
        exp = c09.parse_export(c09.journalctl(p, "export"))
        pool.append(("journal", p, sorted(int(c09.field(e, b"__REALTIME_TIMESTAMP")) for e in exp)))
    jobs, meta = [], []
    for cid in range(ctx.pick(60, 600)):
        srcs = rng.sample(pool, rng.choice([1, 2, 3]))
        allts = sorted(t for x in srcs for t in x[2])
        a = b = None
        if allts and rng.random() < 0.6:
            a, b = sorted([rng.choice(allts), rng.choice(allts)])
        extra = (["-a", c09.bound_str(a, rng)] if a is not None else []) + (["-b", c09.bound_str(b, rng)] if b is not None else [])
        extra += rng.choice([[], ["-n"], ["-p", "-u"], ["--separator", "<S>"]])
        if any(x[0] == "journal" for x in srcs):
            extra += ["--journal-output", rng.choice(["short", "export", "cat", "verbose"])]
        jobs.append((s4, [x[1] for x in srcs], extra, ctx.work))
        meta.append((srcs, a, b, extra))
    for (srcs, a, b, extra), (r0, r1) in zip(meta, core.pmap(other_job, jobs, workers=8)):
        if r0.timed_out or r1.timed_out:
            ctx.inconc("watchdog")
            continue
        kinds = tuple(sorted({x[0] for x in srcs}))
        ctx.evaluated(1, (kinds, a is not None, tuple(extra[-2:])))
        ctx.count("evtx/journal summary runs")
        info = {"argv": r1.argv, "env": r1.env, "summary_tail": r1.err[-800:]}
        if r0.out != r1.out:
            ctx.violation("C19|stdout-changes-with-summary|%s" % "+".join(kinds), "stdout differs between runs with and without --summary", info=info)
            continue
        files, prog = parse_summary(r1.err)
        inwin = lambda t: (a is None or t >= a) and (b is None or t <= b)
        n_e = sum(1 for x in srcs if x[0] == "evtx" for t in x[2] if inwin(t))
        n_j = sum(1 for x in srcs if x[0] == "journal" for t in x[2] if inwin(t))
        if to_int(prog.get("Printed bytes")) != len(r1.out):
            ctx.violation("C19|printed-bytes-differs-from-stdout|%s" % "+".join(kinds), "summary 'Printed bytes' = %s, stdout has %d bytes" % (prog.get("Printed bytes"), len(r1.out)), info=info)
        if to_int(prog.get("Printed evtx events")) != n_e:
            ctx.violation("C19|printed-evtx-count", "summary 'Printed evtx events' = %s, the independent dump has %d records in the window" % (prog.get("Printed evtx events"), n_e), info=info)
        if to_int(prog.get("Printed journal events")) != n_j:
            ctx.violation("C19|printed-journal-count", "summary 'Printed journal events' = %s, journalctl has %d entries in the window [%s, %s]" % (
                prog.get("Printed journal events"), n_j, a, b), info=info)
        nsep = extra.count("--separator") and r1.out.count(b"<S>")
        fb = sum(to_int(f["Printed"].get("bytes")) or 0 for f in files)
        if fb != len(r1.out) - 3 * (nsep or 0):
            ctx.violation("C19|per-file-bytes-do-not-add-up|%s" % "+".join(kinds), "per-file printed bytes sum to %d, total %d minus %d separator bytes" % (fb, len(r1.out), 3 * (nsep or 0)), info=info)
