"""C06 - output independent of scheduling; the run always ends.

Oracles: (1) offline trace checker (vlib.tracecheck) on every run's hook trace,
(2) stdout identical across schedules and equal to the reference merge,
(3) bounded progress: the run reaches loop.end within a generous watchdog; when
the watchdog fires /proc is sampled to tell a deadlock (violation) from a slow
run (inconclusive).
"""
import os
import re
import signal
import subprocess
import time

from vlib import cases, core, gen, tracecheck

LEVEL = "exploration"


FIXT = []


def build_case(ctx, rng, cid):
    n = rng.choice([1, 2, 3, 3, 4, 5, 6, 8, 10, 12])
    tz_min = 0
    t0 = gen.instant(2024, rng.randint(1, 12), rng.randint(1, 28), rng.randint(0, 23), 0, 0)
    d = ctx.casedir("case%05d" % cid)
    srcs, args = [], []
    for sid in range(n):
        kind = rng.choice(["ok"] * 8 + ["empty", "notimestamps", "corruptgz", "missing", "emptyutmpgz", "truncutmpxz", "fixture", "fs"])
        if kind == "ok":
            cnt = rng.choice([0, 1, 2, 4, 6, 7, 12, 30, 80])
            s = cases.make_source(rng, sid, cnt, t0, tz_min, mode=rng.choice(["ties", "dense", "subsec"]),
                                  codec=rng.choice([None, None, "gz", "xz", "tar", "bz2"]), ncont_max=1)
            s.write(d, rng)
            srcs.append(s)
            args.append(("ok", s))
        elif kind == "empty":
            args.append(("bad", gen.write(os.path.join(d, "e%d.log" % sid), b"")))
        elif kind == "notimestamps":
            args.append(("bad", gen.write(os.path.join(d, "n%d.log" % sid), b"no timestamp here\nnor here, really\n" * 5)))
        elif kind == "fixture" and FIXT:
            # a shipped evtx / journal file (plain or compressed -> temp-file extraction in the worker); no byte model for these:
            # the trace rules and equality across schedules still apply
            p = rng.choice(FIXT)
            if rng.random() < 0.5:
                q = os.path.join(d, "f%d-%s.gz" % (sid, os.path.basename(p)))
                gen.write(q, gen.gz_bytes(open(p, "rb").read(), level=1))
                p = q
            args.append(("raw", p))
        elif kind == "fs":
            from vlib import fsgen
            lay = rng.choice([l for l in fsgen.LAYOUTS.values() if getattr(l, "selectable", True)])
            recs = [fsgen.make_record(lay, i, t0 // gen.NS + i, usec=0)[0] for i in range(rng.choice([1, 4, 9]))]
            fd = os.path.join(d, "fs%d" % sid)
            os.makedirs(fd, exist_ok=True)
            args.append(("raw", gen.write(os.path.join(fd, lay.filename), b"".join(recs))))
        elif kind == "emptyutmpgz":
            # a compressed accounting file that decompresses to nothing
            args.append(("bad", gen.write(os.path.join(d, "w%d.wtmp.gz" % sid), gen.gz_bytes(b""))))
        elif kind == "truncutmpxz":
            args.append(("bad", gen.write(os.path.join(d, "x%d.wtmp.xz" % sid), gen.xz_bytes(b"\x07" * 384)[:40])))
        elif kind == "corruptgz":
            args.append(("bad", gen.write(os.path.join(d, "c%d.log.gz" % sid), bytes(rng.randrange(256) for _ in range(300)))))
        else:
            args.append(("bad", os.path.join(d, "missing%d.log" % sid)))
    return d, srcs, args


def schedules(rng, nsrc, k):
    """k schedule environments: None (no perturbation), random, and planned extremes."""
    out = [{}]
    plans = []
    ids = list(range(nsrc))
    if nsrc >= 2:
        a = rng.choice(ids)
        # one worker runs to completion before the others start
        plans.append(";".join("worker.start:%d:0=150000" % i for i in ids if i != a))
        # the last FileInfo arrives long after the others finished
        plans.append("FileInfo:%d:0=200000" % a)
        # one worker stalls mid-stream, the others fill their channels
        plans.append("NewMessage:%d:%d=150000" % (a, rng.randint(0, 6)))
    if nsrc >= 2 and rng.random() < 0.25:
        # one worker silent for seconds while the others sit blocked on their full channels
        plans.append("%s:%d:0=%d" % (rng.choice(["FileInfo", "NewMessage", "worker.start"]), rng.choice(ids), rng.choice([2300000, 3100000])))
    # printing thread slower than every worker: channels fill to capacity, senders block
    plans.append("coord.recv:-1:*=1500")
    plans.append("coord.print:-1:*=1000")
    rng.shuffle(plans)
    while len(out) < k:
        if plans and rng.random() < 0.45:
            out.append({"S4_VERIF_PLAN": plans.pop()})
        else:
            out.append({"S4_VERIF_SCHED": "seed=%d,p=%s,max_us=%d" % (
                rng.randint(0, 1 << 30), rng.choice(["0.05", "0.3", "1.0"]), rng.choice([50, 500, 3000, 20000]))})
    return out


def proc_snapshot(pid):
    snap = {}
    try:
        for t in os.listdir("/proc/%d/task" % pid):
            with open("/proc/%d/task/%s/status" % (pid, t)) as f:
                st = f.read()
            state = [l for l in st.splitlines() if l.startswith("State:")][0].split()[1]
            sw = tuple(int(l.split()[1]) for l in st.splitlines() if "ctxt_switches" in l)
            try:
                wchan = open("/proc/%d/task/%s/wchan" % (pid, t)).read()
            except OSError:
                wchan = "?"
            snap[t] = (state, sw, wchan)
    except (FileNotFoundError, ProcessLookupError):
        return None
    return snap


def run_watch(argv, env, trace, watchdog):
    """Run with a watchdog; on expiry decide deadlock vs. slow from /proc."""
    t0 = time.monotonic()
    p = subprocess.Popen(argv, env=env, stdin=subprocess.DEVNULL, stdout=subprocess.PIPE, stderr=subprocess.PIPE,
                         start_new_session=True)
    try:
        out, err = p.communicate(timeout=watchdog)
        return core.Result(p.returncode, out, err, False, time.monotonic() - t0, argv, env), None
    except subprocess.TimeoutExpired:
        s1 = proc_snapshot(p.pid)
        z1 = os.path.getsize(trace) if os.path.exists(trace) else -1
        time.sleep(2.5)
        s2 = proc_snapshot(p.pid)
        z2 = os.path.getsize(trace) if os.path.exists(trace) else -1
        dead = (s1 is not None and s1 == s2 and z1 == z2 and all(v[0] in ("S", "D") for v in s1.values()))
        try:
            os.killpg(p.pid, signal.SIGKILL)
        except ProcessLookupError:
            pass
        out, err = p.communicate()
        return core.Result(p.returncode, out, err, True, time.monotonic() - t0, argv, env), ("deadlock" if dead else "slow", s1)


def one_case(job):
    s4, d, srcs, args, scheds = job
    okorder = [a[1] for a in args if a[0] == "ok"]
    exp = cases.expected_stdout(cases.merge_model(srcs, okorder))
    argv = [s4, "--color", "never", "-t=+00:00"] + [a[1].arg if a[0] == "ok" else a[1] for a in args]
    if any(a[0] == "raw" for a in args):
        exp = None      # no byte model when a shipped evtx/journal or a fixed-struct file takes part
    res = []
    for i, extra in enumerate(scheds):
        trace = os.path.join(d, "trace%d" % i)
        env = core.base_env(extra=dict(extra, S4_VERIF_TRACE=trace))
        r, hang = run_watch(argv, env, trace, watchdog=150)
        evs = tracecheck.parse(trace) if os.path.exists(trace) else []
        res.append((extra, r, hang, evs, exp, trace))
    return res


TSAN_BLOCK = re.compile(rb"WARNING: ThreadSanitizer: ([^\n(]+).*?SUMMARY: ThreadSanitizer: [^\n]* in ([^\n]+)", re.S)


def tsan_case(job):
    s4t, d, srcs, args, scheds, opts, sigint_at = job
    okorder = [a[1] for a in args if a[0] == "ok"]
    exp = cases.expected_stdout(cases.merge_model(srcs, okorder))
    if any(a[0] == "raw" for a in args):
        exp = None
    argv = [s4t, "--color", "never", "-t=+00:00"] + opts + [a[1].arg if a[0] == "ok" else a[1] for a in args]
    res = []
    for i, extra in enumerate(scheds):
        env = core.base_env(tmpdir=d, extra=dict(extra, TSAN_OPTIONS="halt_on_error=0:exitcode=0:second_deadlock_stack=1"))
        t0 = time.monotonic()
        p = subprocess.Popen(argv, env=env, stdin=subprocess.DEVNULL, stdout=subprocess.PIPE, stderr=subprocess.PIPE, start_new_session=True)
        sent = False
        try:
            if sigint_at is not None and i % 2 == 1:
                time.sleep(sigint_at)
                if p.poll() is None:
                    os.kill(p.pid, signal.SIGINT)
                    sent = True
            out, err = p.communicate(timeout=300)
            to = False
        except subprocess.TimeoutExpired:
            os.killpg(p.pid, signal.SIGKILL)
            out, err = p.communicate()
            to = True
        res.append((extra, core.Result(p.returncode, out, err, to, time.monotonic() - t0, argv, env), sent, exp))
    return res


def tsan_part(ctx):
    """The same kind of cases on a ThreadSanitizer build (std rebuilt with the sanitizer, so the futex locks, atomics and
    channels are understood): a data race between a worker, the printing thread and the Ctrl-C thread is scheduling
    dependence by definition. Every report block on stderr is a violation; stdout is compared with the model as well."""
    s4t = core.build_tsan()
    rng = ctx.rng
    jobs = []
    for cid in range(ctx.pick(24, 400)):
        d, srcs, args = build_case(ctx, rng, 100000 + cid)
        opts = rng.choice([[], [], ["--summary"], ["-n", "-u"], ["-a", "2024-01-01T00:00:00"]])
        sig = rng.choice([None, None, 0.0, 0.02, 0.1, 0.3])
        jobs.append((s4t, d, srcs, args, schedules(rng, len(args), 3), opts, sig))
    nrep = 0
    for job, results in zip(jobs, core.pmap(tsan_case, jobs)):
        d = job[1]
        for extra, r, sent, exp in results:
            if r.timed_out:
                ctx.inconc("watchdog (tsan build)")
                continue
            ctx.evaluated(1, None)
            ctx.count("tsan runs")
            if sent:
                ctx.count("tsan runs with SIGINT delivered (Ctrl-C thread active)")
            if "--summary" in r.argv:
                ctx.count("tsan runs with --summary")
            blocks = TSAN_BLOCK.findall(r.err)
            for kind, where in blocks[:3]:
                nrep += 1
                fn = re.sub(rb"::h[0-9a-f]{16}|0x[0-9a-f]+|\(.*?\)", b"", where).decode("utf-8", "replace").strip()[:80]
                ctx.violation("C06|tsan|%s|%s" % (kind.decode().strip().replace(" ", "-"), fn), "ThreadSanitizer: %s in %s" % (kind.decode().strip(), fn),
                              src_dir=d, files={"tsan.stderr": r.err[-20000:]}, info={"argv": r.argv, "env": r.env, "sigint": sent})
            if b"ThreadSanitizer" in r.err and not blocks:
                ctx.violation("C06|tsan|unparsed-report", "ThreadSanitizer wrote something that is not a report block: %r" % r.err[-300:], src_dir=d,
                              files={"tsan.stderr": r.err[-20000:]}, info={"argv": r.argv, "env": r.env})
            if not sent and exp is not None and "-a" not in r.argv and "-n" not in r.argv and r.rc in (0, 1) and r.out != exp:
                ctx.violation("C06|stdout-differs-from-model|tsan-build", "stdout of the ThreadSanitizer build differs from the reference merge under %s" % (extra,),
                              src_dir=d, files={"expected.stdout": exp, "observed.stdout": r.out}, info={"argv": r.argv, "env": r.env})
    ctx.extra["tsan_report_blocks"] = nrep


def run(ctx):
    s4 = core.build_s4()
    rng = ctx.rng
    ncases = ctx.pick(150, 1500)
    nsched = ctx.pick(5, 12)
    ctx.rule = ("1..12 sources (0..80 messages; empty, timestamp-less, corrupt-gz and missing sources mixed in) each run "
                "under %d schedules (unperturbed, random delay schedules, planned extremes: late starter, late FileInfo, "
                "stalled worker, slow printing thread); every run's trace is replayed against the protocol state machine; "
                "distinct = distinct coordinator interleavings (hash of the recv/print event sequence) of non-trivial runs "
                "(>=2 live sources)") % nsched
    ctx.assumptions = ["trace lines are written under one mutex: line order is the real-time order of the log points",
                       "liveness is checked as bounded progress (watchdog 150 s with injected delays <= 0.2 s each)"]
    from vlib import fixtures
    FIXT[:] = [p for p in fixtures.evtxs() + fixtures.journals() if os.path.getsize(p) < 3_000_000]
    jobs = []
    for cid in range(ncases):
        d, srcs, args = build_case(ctx, rng, cid)
        jobs.append((s4, d, srcs, args, schedules(rng, len(args), nsched)))
    tot = {"events": 0, "blocked_sends": 0, "max_channel_occupancy": 0, "prints": 0}
    for job, results in zip(jobs, core.pmap(one_case, jobs)):
        _, d, srcs, args, _ = job
        outs = set()
        for extra, r, hang, evs, exp, trace in results:
            ctx.count("runs")
            if hang is not None:
                if hang[0] == "deadlock":
                    ctx.violation("C06|deadlock", "no thread made progress for 2.5 s after a 150 s watchdog; threads: %s" % (hang[1],),
                                  src_dir=d, info={"argv": r.argv, "env": r.env})
                else:
                    ctx.inconc("watchdog-slow")
                continue
            if not evs:
                ctx.inconc("no-trace")
                continue
            v = tracecheck.check(evs)
            live = v.stats.get("sources", 0)
            ctx.evaluated(1, v.interleaving if live >= 2 else None)
            for k in ("events", "blocked_sends", "prints"):
                tot[k] += v.stats.get(k, 0)
            tot["max_channel_occupancy"] = max(tot["max_channel_occupancy"], v.stats.get("max_channel_occupancy", 0))
            if v.stats.get("blocked_sends"):
                ctx.count("runs_where_a_sender_blocked_on_a_full_channel")
            if "S4_VERIF_PLAN" in extra:
                ctx.count("runs_planned_extreme")
            elif "S4_VERIF_SCHED" in extra:
                ctx.count("runs_random_schedule")
            for rule, msg in v.violations[:3]:
                ctx.violation("C06|trace|%s" % rule, msg, src_dir=d, info={"argv": r.argv, "env": r.env, "trace": os.path.basename(trace)})
            if r.rc not in (0, 1):
                ctx.violation("C06|exit|rc=%s" % r.rc, "exit status %s, stderr %r" % (r.rc, r.err[-300:]), src_dir=d,
                              info={"argv": r.argv, "env": r.env})
                continue
            outs.add(r.out)
            if exp is not None and r.out != exp:
                ctx.violation("C06|stdout-differs-from-model", "stdout differs from the reference merge under %s" % (extra,),
                              src_dir=d, files={"expected.stdout": exp, "observed.stdout": r.out},
                              info={"argv": r.argv, "env": r.env})
            if len(ctx.samples) < 3 and live >= 3 and v.stats.get("blocked_sends"):
                ctx.sample({"argv": [os.path.basename(a) for a in r.argv[1:]], "schedule": extra, "stats": v.stats,
                            "interleaving": v.interleaving,
                            "trace_head": ["\t".join(map(str, e[2:])) for e in evs[:12]]})
        if len(outs) > 1:
            ctx.violation("C06|stdout-depends-on-schedule", "%d distinct outputs over the schedules of one case" % len(outs), src_dir=d)
    tsan_part(ctx)
    ctx.extra["trace_events_checked"] = tot["events"]
    ctx.extra["prints_checked"] = tot["prints"]
    ctx.extra["sends_that_blocked_on_full_channel"] = tot["blocked_sends"]
    ctx.extra["max_channel_occupancy_observed"] = tot["max_channel_occupancy"]
    ctx.extra["distinct_interleavings"] = len(ctx.distinct)
