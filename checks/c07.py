"""C07 - malformed input cannot crash, hang, or disturb other sources.

Fault enumeration over one small valid file per kind and container: truncation
(every offset for small files, structural offset classes + samples for large),
1/2/4/8-byte overwrites with 0x00 / 0xFF / random bytes at the magic, header,
trailer and payload classes, random byte strings of assorted lengths, and valid
content under every mismatching name; each faulted file is processed alone and
beside 1..3 valid text sources.

Oracle: process status (no signal, exit status 0 or 1, no 'panicked at'), the
AddressSanitizer build's reports (one short process per case, deduplicated by
error kind + first in-repo frames), a watchdog with a /proc probe (spinning or
blocked = hang), and the valid sources' tokens all present, once, in order.
The thorough tier repeats a sample under valgrind memcheck on the release build.
"""
import glob
import os
import re
import struct
import signal
import subprocess
import time

from vlib import cases, core, fixtures, fsgen, gen

LEVEL = "fault_enumeration"

ASAN_RE = re.compile(r"ERROR: AddressSanitizer: (\S+)")
FRAME_RE = re.compile(r"#\d+ 0x[0-9a-f]+ in (.+?) (%s/src/\S+?):(\d+)" % re.escape(core.REPO))


def seeds(ctx, rng):
    """(kind, file name, bytes)"""
    out = []
    t0 = gen.instant(2024, 2, 2, 2, 2, 2)
    s = cases.make_source(rng, 90, 12, t0, 0, mode="dense", notation="iso_space", ncont_max=1, cont_class="ascii", trailing_newline=True)
    text = s.plain_bytes()
    out.append(("text", "t.log", text))
    for c in ("gz", "bz2", "xz", "lz4"):
        kw = {"split": 300, "stored": False, "content_checksum": True} if c == "lz4" else {}
        out.append(("text." + c, "t.log." + c, gen.contain(text, c, **kw)))
    out.append(("text.tar", "t.tar", gen.tar_bytes([("d/t.log", text, 1_600_000_000), ("d/u.log", text, 1_600_000_000)])))
    main6 = ("Fs_Linux_x86_Utmpx", "Fs_Linux_x86_Lastlog", "Fs_Linux_x86_Acct_v3", "Fs_Netbsd_x8664_Utmp", "Fs_Freebsd_x8664_Utmpx", "Fs_Openbsd_x86_Lastlog")
    for ln in main6 + tuple(sorted(n for n, l in fsgen.LAYOUTS.items() if n not in main6 and getattr(l, "selectable", True))):
        lay = fsgen.LAYOUTS[ln]
        recs = [fsgen.make_record(lay, i, 1_690_000_000 + 10 * i, usec=i)[0] for i in range(4)]
        data = fsgen.build_file(lay, recs)
        out.append((("fixedstruct:" if ln in main6 else "fixedstruct-fields-only:") + ln, lay.filename, data))
        if ln in ("Fs_Linux_x86_Utmpx", "Fs_Linux_x86_Lastlog"):
            out.append(("fixedstruct.gz:" + ln, lay.filename + ".gz", gen.gz_bytes(data)))
            out.append(("fixedstruct.tar:" + ln, "fs.tar", gen.tar_bytes([("var/log/" + lay.filename, data, 1_600_000_000)])))
    for p in fixtures.evtxs():
        data = open(p, "rb").read()
        k = "evtx:" + os.path.basename(p)
        out.append((k, "e.evtx", data))
        if len(data) < 200_000:
            out.append((k + ".gz", "e.evtx.gz", gen.gz_bytes(data)))
    for p in fixtures.evtxs():
        data = open(p, "rb").read()
        if len(data) < 200_000:
            out.append(("evtx.tar:" + os.path.basename(p), "e.tar", gen.tar_bytes([("x/e.evtx", data, 1_600_000_000)])))
    for p in fixtures.journals():
        data = open(p, "rb").read()
        if "ubuntu22x3" in p:
            out.append(("journal.tar:" + os.path.basename(p), "j.tar", gen.tar_bytes([("x/j.journal", data, 1_600_000_000)])))
    for p in fixtures.journals():
        data = open(p, "rb").read()
        if "ubuntu22x3" in p:
            out.append(("journal:" + os.path.basename(p), "j.journal", data))
            out.append(("journal.xz:" + os.path.basename(p), "j.journal.xz", gen.xz_bytes(data)))
    return out


def offset_classes(n):
    cl = {"magic": list(range(0, min(8, n))), "header": list(range(8, min(64, n))), "trailer": list(range(max(0, n - 16), n))}
    return cl


def faults(ctx, rng, kind, data, budget):
    """yield (class, bytes)"""
    n = len(data)
    out = []
    # truncation
    if n <= 700:
        points = list(range(0, n))
    else:
        points = sorted(set(list(range(0, 80)) + [n - k for k in range(1, 40)] + [rng.randrange(n) for _ in range(60)] +
                            [k * 512 for k in range(1, min(40, n // 512))] + [k * 65536 + d for k in range(1, n // 65536 + 1) for d in (-1, 0, 1) if 0 < k * 65536 + d < n]))
    for p in points:
        out.append(("truncate@%s" % ("head" if p < 64 else ("tail" if p > n - 64 else "body")), data[:p]))
    # overwrites
    cl = offset_classes(n)
    body = [rng.randrange(n) for _ in range(40)] if n else []
    for cname, offs in list(cl.items()) + [("payload", body)]:
        for o in offs:
            for w in (1, 2, 4, 8):
                if rng.random() < (0.5 if cname != "payload" else 0.35):
                    fill = rng.choice([b"\x00" * w, b"\xff" * w, bytes(rng.randrange(256) for _ in range(w))])
                    b = bytearray(data)
                    b[o:o + w] = fill[:max(0, min(w, n - o))]
                    out.append(("overwrite%d@%s" % (w, cname), bytes(b)))
    # random byte strings under this name
    for ln in (0, 1, 5, 6, 7, 63, 64, 65, 292, 384, 385, 4096, 65536, 70001):
        out.append(("random-bytes", bytes(rng.randrange(256) for _ in range(min(ln, 3000))) * (1 if ln <= 3000 else ln // 3000 + 1)))
        if ln in (64, 384, 4096):
            out.append(("zero-bytes", b"\x00" * ln))
            out.append(("ff-bytes", b"\xff" * ln))
            out.append(("printable-bytes", bytes(rng.choice(b"abcdefghij0123456789 :-") for _ in range(ln))))
    rng.shuffle(out)
    out = out[:budget]
    if kind.split(":")[0] in ("text.tar", "fixedstruct.tar", "evtx.tar", "journal.tar"):
        # damaged numeric header fields of the first member, header checksum recomputed so the archive reader accepts the
        # header: octal limits, non-octal text, and the base-256 form (first byte 0x80 / 0xff) that holds 64-bit and larger values
        fields = {"mode": (100, 8), "uid": (108, 8), "gid": (116, 8), "size": (124, 12), "mtime": (136, 12), "devmajor": (329, 8)}
        for fname_, (fo, fl) in fields.items():
            def b256(v):
                return b"\x80" + (v % (1 << (8 * (fl - 1)))).to_bytes(fl - 1, "big")
            vals = [b"7" * (fl - 1) + b"\0", b"0" * (fl - 1) + b"\0", b" " * fl, b"\0" * fl, b"9" * (fl - 1) + b"\0", b"-1".ljust(fl, b"\0"),
                    b256(2**63 - 1), b256(2**62), b256(2**40),
                    b"\x80" + b"\xff" * (fl - 1), b"\xff" * fl, b"\xff" + b"\x00" * (fl - 1), b256(253402300800)]
            for v in vals:
                for fix_sum in (True, False):
                    b = bytearray(data)
                    b[fo:fo + fl] = v
                    if fix_sum:
                        b[148:156] = b" " * 8
                        b[148:156] = ("%06o\0 " % sum(b[:512])).encode()
                    out.append(("tar-header-field:%s" % fname_, bytes(b)))
    # a file the user may not read (mode 000, run as uid 65534; only meaningful when the check itself runs as root)
    out.append(("unreadable-file", data, None, None, "unreadable"))
    if kind == "text":
        # timestamp fields with values at and beyond their limits, month names in every accepted spelling (with the trailing
        # dot the patterns allow), in notations that use month names / numeric fields
        mons = ["Jan", "Feb", "Mar", "Apr", "May", "Jun", "Jul", "Aug", "Sep", "Sept", "Oct", "Nov", "Dec", "January", "June", "September"]
        lines = []
        for m in mons:
            for sp in (m, m.lower(), m.upper(), m + ".", m.lower() + ".", m.upper() + "."):
                lines.append(("[05/%s/2024:10:00:00 +0000] GET / x" % sp, "Sun, 5 %s 2024 10:00:00 +0000 x" % sp, "%s  5 10:00:00 2024 host x" % sp, "%s 5 10:00:00 host app: x" % sp))
        for tpl in range(4):
            out.append(("hostile-text:month-spellings", ("\n".join(l[tpl] for l in lines) + "\n").encode()))
        for li in lines[::7]:
            for one in li:
                out.append(("hostile-text:month-spelling-first-line", (one + "\n" + one + "\n").encode()))
        nums = []
        for y in ("0000", "0001", "1969", "9999", "10000", "99999"):
            nums.append("%s-01-01 00:00:00 x" % y)
        for mo in ("00", "13", "99"):
            nums.append("2024-%s-01 00:00:00 x" % mo)
        for dd in ("00", "30", "31", "32", "99"):
            nums.append("2024-02-%s 00:00:00 x" % dd)
        for hh, mi, ss in (("24", "00", "00"), ("23", "60", "00"), ("23", "59", "60"), ("23", "59", "61"), ("99", "99", "99")):
            nums.append("2024-01-01 %s:%s:%s x" % (hh, mi, ss))
        for fr in ("1234567890", "123456789012345678901234567890", "0" * 40):
            nums.append("2024-01-01 00:00:00.%s x" % fr)
        for off in ("+24:00", "-24:00", "+99:99", "+1400", "-1201", "+0060", "+00:60"):
            nums.append("2024-01-01 00:00:00 %s x" % off)
            nums.append("2024-01-01T00:00:00%s x" % off)
        for ep in ("0", "1", "99999999999", "999999999999999", "18446744073709551616", "-1"):
            nums.append("type=X msg=audit(%s.123:45): x" % ep)
            nums.append("%s.123456 write(1, x" % ep)
        # year-less (classic syslog) logs that do not begin with a dated line: the backward year pass has to cope with a
        # head that gives no timestamp
        body = b"".join(b"Jan 10 10:00:%02d host app[1]: S90M%d line\n" % (i, i) for i in range(6))
        for lead in (b"logfile turned over\n", b"\n", b"\x00\x00\x00\x00\n", b"\xef\xbb\xbf\xff\xfe junk\n", b"2024-01-01 00:00:00 another format\n",
                     b"Feb 29 10:00:00 host app[1]: leap\nFeb 29 10:00:01 host app[1]: leap\n", b"header one\nheader two\n\n", b" Jan 10 cut off"):
            out.append(("hostile-text:yearless-log-with-undated-head", lead + body))
            out.append(("hostile-text:yearless-log-with-undated-head", lead + body + lead))
        out.append(("hostile-text:field-limits", ("\n".join(nums) + "\n").encode()))
        for one in nums:
            out.append(("hostile-text:field-limit-first-line", (one + "\n" + one + "\n").encode()))
    if kind == "text":
        # modification times the file system accepts but that lie outside everyday ranges (the year of year-less timestamps
        # and the summary are derived from it)
        for mt in (-2**31, -1, 0, 2**31, 2**32 + 5, 2**33, 253402300800, 2**40, 2**55):
            out.append(("mtime-extreme", data, None, mt))
    if kind.startswith("fixedstruct-fields-only:"):
        out = [o for o in out if o[0].startswith("tar-")]
    if kind.startswith("fixedstruct:") or kind.startswith("fixedstruct-fields-only:"):
        # damaged numeric fields: every integer field of the second record set to values around table sizes, sign and width
        # limits (ut_type indexes a 12-entry name table, ac_flag is a bit set, time values feed datetime conversion)
        lay = fsgen.LAYOUTS[kind.split(":")[1]]
        fmt = {"i8": "b", "u8": "B", "i16": "h", "u16": "H", "comp_t": "H", "i32": "i", "u32": "I", "i64": "q", "u64": "Q"}
        vals = list(range(-2, 18)) + [31, 32, 33, 63, 64, 127, 128, 129, 255, 256, 257, 32767, 32768, 65535, 65536, -128, -129, -32768, -32769,
                                      2**31 - 1, 2**31, 2**32 - 1, 2**32, -2**31, 2**63 - 1, -2**63, 2**64 - 1]
        for f in lay.fields:
            if f.kind not in fmt:
                continue
            bits = 8 * f.size
            signed = fmt[f.kind].islower()
            lo, hi = (-(1 << (bits - 1)), (1 << (bits - 1)) - 1) if signed else (0, (1 << bits) - 1)
            for v in vals:
                if lo <= v <= hi:
                    b = bytearray(data)
                    o = lay.size + f.offset
                    b[o:o + f.size] = struct.pack("<" + fmt[f.kind], v)
                    out.append(("field-value:%s" % f.name, bytes(b)))
    # gzip: several members in one file (what `cat a.gz b.gz` or `gzip -c x >> a.gz` produce), trailing garbage and a trailer
    # whose ISIZE disagrees with the stream; always included
    if kind.startswith("text.gz") or kind.startswith("fixedstruct.gz"):
        plain = None
        try:
            import gzip as _gz
            plain = _gz.decompress(data)
        except Exception:
            pass
        if plain:
            small, big = plain[:max(1, len(plain) // 3)], plain + plain + plain
            out.append(("gz-multi-member:small-then-large", gen.gz_bytes(small) + gen.gz_bytes(big)))
            out.append(("gz-multi-member:large-then-small", gen.gz_bytes(big) + gen.gz_bytes(small)))
            out.append(("gz-multi-member:three", gen.gz_bytes(small) + gen.gz_bytes(small) + gen.gz_bytes(big)))
            out.append(("gz-multi-member:first-over-64k", gen.gz_bytes(plain * (70000 // len(plain) + 1)) + gen.gz_bytes(plain * (200000 // len(plain) + 1))))
            out.append(("gz-trailing-garbage", data + bytes(rng.randrange(256) for _ in range(37))))
            out.append(("gz-trailing-zeros", data + b"\x00" * 512))
            b = bytearray(data)
            b[-4:] = (len(plain) * 3).to_bytes(4, "little")
            out.append(("gz-isize-too-large", bytes(b)))
            b[-4:] = (max(1, len(plain) // 2)).to_bytes(4, "little")
            out.append(("gz-isize-too-small", bytes(b)))
            b[-4:] = (0).to_bytes(4, "little")
            out.append(("gz-isize-zero", bytes(b)))
    return out


def asan_signature(log):
    m = ASAN_RE.search(log)
    kind = m.group(1) if m else "unknown"
    acc = "READ" if "READ of size" in log else ("WRITE" if "WRITE of size" in log else "-")
    frames = FRAME_RE.findall(log)
    fr = []
    for fn, path, line in frames:
        fn = re.sub(r"<|>|::\{closure.*", "", fn)
        short = fn.split("::")[-1]
        where = os.path.basename(path)
        if (short, where) not in fr:
            fr.append((short, where))
        if len(fr) == 2:
            break
    cstr = "CStr::from_ptr" in log.replace("<core::ffi::c_str::CStr>::from_ptr", "CStr::from_ptr")
    if cstr and fr and fr[0][1] == "fixedstruct.rs" and any(f[0] in ("score_fixedstruct", "as_bytes") for f in fr):
        # 41 one-line accessors of the form CStr::from_ptr(self.FIELD.as_ptr()): one family
        return "asan|%s|%s|fixedstruct-string-accessor-CStr::from_ptr<-%s" % (kind, acc, fr[1][0] if len(fr) > 1 else "?")
    return "asan|%s|%s|%s" % (kind, acc, "<-".join("%s(%s)" % f for f in fr) or "no-repo-frame")


_CAN_DROP = {}


def can_drop_uid(binary):
    """can the binary be started as uid 65534 from here? (needs root, and every directory on the way must be searchable)"""
    if binary not in _CAN_DROP:
        ok = False
        if os.geteuid() == 0:
            try:
                r = subprocess.run([binary, "--version"], stdin=subprocess.DEVNULL, capture_output=True, timeout=60, user=65534, group=65534, extra_groups=[])
                ok = r.returncode == 0
            except (OSError, subprocess.SubprocessError, ValueError):
                ok = False
        _CAN_DROP[binary] = ok
    return _CAN_DROP[binary]


def run_one(args):
    s4, argv, env, watchdog = args
    t0 = time.monotonic()
    uid = env.pop("VERIF_RUN_AS_UID", None) if isinstance(env, dict) else None
    kw = {}
    if uid and os.geteuid() == 0:
        kw = {"user": int(uid), "group": int(uid), "extra_groups": []}
    p = subprocess.Popen([s4] + argv, env=env, stdin=subprocess.DEVNULL, stdout=subprocess.PIPE, stderr=subprocess.PIPE, start_new_session=True, **kw)
    try:
        out, err = p.communicate(timeout=watchdog)
        return core.Result(p.returncode, out, err, False, time.monotonic() - t0, [s4] + argv, env), None
    except subprocess.TimeoutExpired:
        def cpu():
            try:
                f = open("/proc/%d/stat" % p.pid).read().rsplit(")", 1)[1].split()
                return int(f[11]) + int(f[12])
            except Exception:
                return None
        c1 = cpu()
        time.sleep(2.0)
        c2 = cpu()
        how = "spinning" if (c1 is not None and c2 is not None and c2 - c1 >= 50) else ("blocked" if c1 == c2 and c1 is not None else "slow")
        try:
            os.killpg(p.pid, signal.SIGKILL)
        except ProcessLookupError:
            pass
        out, err = p.communicate()
        return core.Result(p.returncode, out, err, True, time.monotonic() - t0, [s4] + argv, env), how


def run(ctx):
    asan = core.build_asan()
    rel = core.build_s4()
    rng = ctx.rng
    d0 = ctx.casedir("faults")
    ctx.rule = ("seed files: text, gz/bz2/xz/lz4/tar of it, 6 fixed-struct layouts (+gz, +tar), evtx (+gz), journal (+xz); faults: truncation at every "
                "offset (small) or head/tail/body/block-edge classes, 1/2/4/8-byte overwrites 00/FF/random at magic/header/trailer/payload, random / "
                "zero / 0xFF / printable byte strings of 14 lengths, valid content under mismatching names; each alone and beside 1..3 valid text "
                "sources; AddressSanitizer build; distinct = (seed kind, fault class, companions, outcome class)")
    ctx.assumptions = ["ASan reports only what the workload reaches; intra-object overflows are invisible to it", "libsystemd (journal reading) is not instrumented"]
    # valid companions
    comp = []
    t0 = gen.instant(2024, 2, 2, 2, 2, 0)
    for i in range(3):
        s = cases.make_source(rng, i, 8, t0, 0, mode="ties", notation="iso_space", ncont_max=1, cont_class="ascii", trailing_newline=True)
        s.write(d0, rng)
        comp.append(s)
    sd = seeds(ctx, rng)
    per_seed = ctx.pick(90, 1500)
    jobs, meta = [], []
    n = 0
    for kind, fname, data in sd:
        fl = faults(ctx, rng, kind, data, per_seed)
        # valid content under mismatching names
        for other_kind, other_name, _ in rng.sample(sd, min(len(sd), ctx.pick(4, len(sd)))):
            if other_name != fname:
                fl.append(("mismatching-name:%s-as-%s" % (kind.split(":")[0], other_name), data, other_name))
        for f in fl:
            fclass, fdata = f[0], f[1]
            name = f[2] if len(f) > 2 and f[2] else fname
            dd = os.path.join(d0, "f%06d" % n)
            n += 1
            os.makedirs(dd)
            path = gen.write(os.path.join(dd, name), fdata)
            unreadable = len(f) > 4 and f[4] == "unreadable"
            if len(f) > 3 and f[3] is not None:
                try:
                    os.utime(path, (f[3], f[3]))
                except (OSError, OverflowError):
                    ctx.count("mtime values the file system refused")
            k = rng.choice([0, 0, 1, 2, 3])
            cs = rng.sample(comp, k)
            files = [c.arg for c in cs]
            files.insert(rng.randint(0, len(files)), path)
            env = core.base_env(tmpdir=dd, extra={"ASAN_OPTIONS": "halt_on_error=1:abort_on_error=0:exitcode=97:detect_leaks=0:log_path=%s/asan" % dd})
            if unreadable and not can_drop_uid(asan):
                ctx.count("unreadable-file faults skipped (uid 65534 cannot reach the build directory or the check does not run as root)")
                continue
            if unreadable:
                os.chmod(path, 0)
                os.chmod(dd, 0o777)
                env["VERIF_RUN_AS_UID"] = "65534"
            # a third of the runs with --summary: its bookkeeping after the printing loop handles every source that failed
            jobs.append((asan, ["--color", "never", "-t=+00:00"] + (["--summary"] if rng.random() < 0.33 else []) + files, env, 120))
            meta.append((kind, fclass, cs, files, dd, path))
    results = core.pmap(run_one, jobs)
    asan_sigs = {}
    for (kind, fclass, cs, files, dd, path), (r, hang) in zip(meta, results):
        k0 = kind.split(":")[0]
        fc0 = fclass.split(":")[0]
        ctx.count("seed:%s" % k0)
        ctx.count("fault:%s" % fc0.split("@")[0])
        if cs:
            ctx.count("runs beside valid sources")
        info = {"argv": r.argv, "env": r.env, "fault": fclass, "seed": kind, "stderr_tail": r.err[-600:], "rc": r.rc, "faulted_file": path}
        if hang is not None:
            if hang == "slow":
                ctx.inconc("watchdog-slow")
                continue
            ctx.evaluated(1, (k0, fc0, len(cs), "hang"))
            ctx.violation("C07|hang|%s|%s" % (hang, k0), "process did not end within 120 s (%s) on %s of %s" % (hang, fclass, kind), src_dir=dd, info=info)
            continue
        logs = glob.glob(os.path.join(dd, "asan.*"))
        outcome = "rc%s" % r.rc
        if logs:
            log = open(logs[0], errors="replace").read()
            sig = asan_signature(log)
            outcome = sig
            asan_sigs[sig] = asan_sigs.get(sig, 0) + 1
            ctx.violation("C07|" + sig, "AddressSanitizer report on %s of %s: %s" % (fclass, kind, log.splitlines()[1][:200] if len(log.splitlines()) > 1 else ""),
                          src_dir=dd, files={"asan.log": log.encode()}, info=info)
        elif r.rc is not None and r.rc < 0:
            outcome = "signal%d" % -r.rc
            ctx.violation("C07|signal|%d|%s" % (-r.rc, k0), "killed by signal %d on %s of %s; stderr %r" % (-r.rc, fclass, kind, r.err[-300:]), src_dir=dd, info=info)
        elif b"panicked at" in r.err:
            m = re.search(rb"panicked at ([^\n:]+:\d+)", r.err)
            outcome = "panic"
            ctx.violation("C07|panic|%s" % (m.group(1).decode("latin-1") if m else "?"), "panic on %s of %s: %r" % (fclass, kind, r.err[-300:]), src_dir=dd, info=info)
        elif r.rc not in (0, 1):
            ctx.violation("C07|exit-status|%s|%s" % (r.rc, k0), "exit status %s on %s of %s; stderr %r" % (r.rc, fclass, kind, r.err[-300:]), src_dir=dd, info=info)
        ctx.evaluated(1, (k0, fc0, len(cs), outcome if len(outcome) < 40 else outcome[:40]))
        # valid sources undisturbed: their tokens all present, once, in order
        if cs and not logs and not (r.rc is not None and r.rc < 0):
            toks = cases.tokens_of(r.out)
            for c in cs:
                mine = [t for t in toks if t[0] == c.sid]
                want = [(c.sid, i) for i in range(len(c.msgs))]
                if mine != want:
                    ctx.violation("C07|valid-source-disturbed|%s|%s" % (k0, fc0.split("@")[0]),
                                  "valid source %d printed %d of %d messages (in order: %s) beside %s of %s" % (c.sid, len(mine), len(want), mine == sorted(mine), fclass, kind),
                                  src_dir=dd, files={"observed.stdout": r.out[:100000]}, info=info)
                    break
        if len(ctx.samples) < 5 and rng.random() < 0.002:
            ctx.sample({"seed": kind, "fault": fclass, "beside_valid_sources": len(cs), "rc": r.rc, "stderr_head": r.err[:120]})
    ctx.extra["asan_reports_by_signature"] = asan_sigs
    run_miri(ctx)
    # A sanitizer report halts the process, so whatever the program would have done after a *known* report is
    # hidden in that run. Re-run those cases on the release build and apply the process-status / hang /
    # undisturbed-sources oracles there.
    known_sigs = {k["signature"] for k in ctx.known if k.get("status") == "known"}
    redo = []
    for (kind, fclass, cs, files, dd, path), (r, hang) in zip(meta, results):
        logs = glob.glob(os.path.join(dd, "asan.*"))
        if logs and ("C07|" + asan_signature(open(logs[0], errors="replace").read())) in known_sigs:
            redo.append((kind, fclass, cs, files, dd, path))
    rjobs = [(rel, ["--color", "never", "-t=+00:00"] + m[3], core.base_env(tmpdir=m[4]), 120) for m in redo]
    for (kind, fclass, cs, files, dd, path), (r, hang) in zip(redo, core.pmap(run_one, rjobs)):
        k0, fc0 = kind.split(":")[0], fclass.split(":")[0]
        ctx.count("cases re-run on the release build after a known sanitizer report")
        info = {"argv": r.argv, "env": r.env, "fault": fclass, "seed": kind, "stderr_tail": r.err[-600:], "rc": r.rc, "faulted_file": path, "build": "release"}
        if hang is not None:
            if hang != "slow":
                ctx.violation("C07|hang|%s|%s" % (hang, k0), "release build did not end within 120 s (%s) on %s of %s" % (hang, fclass, kind), src_dir=dd, info=info)
            else:
                ctx.inconc("watchdog-slow")
            continue
        ctx.evaluated(1, (k0, fc0, len(cs), "release-rc%s" % r.rc))
        if r.rc is not None and r.rc < 0:
            ctx.violation("C07|signal|%d|%s" % (-r.rc, k0), "release build killed by signal %d on %s of %s; stderr %r" % (-r.rc, fclass, kind, r.err[-300:]), src_dir=dd, info=info)
            continue
        if b"panicked at" in r.err:
            m = re.search(rb"panicked at ([^\n:]+:\d+)", r.err)
            ctx.violation("C07|panic|%s" % (m.group(1).decode("latin-1") if m else "?"), "panic on %s of %s: %r" % (fclass, kind, r.err[-300:]), src_dir=dd, info=info)
        elif r.rc not in (0, 1):
            ctx.violation("C07|exit-status|%s|%s" % (r.rc, k0), "exit status %s on %s of %s" % (r.rc, fclass, kind), src_dir=dd, info=info)
        toks = cases.tokens_of(r.out)
        for c in cs:
            mine = [t for t in toks if t[0] == c.sid]
            want = [(c.sid, i) for i in range(len(c.msgs))]
            if mine != want:
                ctx.violation("C07|valid-source-disturbed|%s|%s" % (k0, fc0.split("@")[0]),
                              "valid source %d printed %d of %d messages beside %s of %s (release build)" % (c.sid, len(mine), len(want), fclass, kind),
                              src_dir=dd, files={"observed.stdout": r.out[:100000]}, info=info)
                break
    # thorough: valgrind memcheck on a sample with the release build
    if not ctx.quick:
        vjobs = []
        sample = rng.sample(list(range(len(meta))), min(len(meta), 1500))
        for i in sample:
            kind, fclass, cs, files, dd, path = meta[i]
            vjobs.append((["valgrind", "--error-exitcode=96", "--quiet", "--track-origins=no", "--leak-check=no", rel, "--color", "never", "-t=+00:00"] + files, dd, kind, fclass))
        def vrun(j):
            argv, dd, kind, fclass = j
            return core.run(argv, core.base_env(tmpdir=dd), timeout=600)
        for j, r in zip(vjobs, core.pmap(vrun, vjobs)):
            if r.timed_out:
                ctx.inconc("valgrind-watchdog")
                continue
            ctx.count("valgrind runs")
            if r.rc == 96:
                m = re.search(rb"==\d+== (Invalid \w+ of size \d+|Conditional jump[^\n]*|Use of uninit[^\n]*)", r.err)
                fr = re.findall(rb"(?:at|by) 0x[0-9A-F]+: (\S+) \((\w+\.rs):\d+\)", r.err)
                fam = "fixedstruct-string-accessor" if any(f[1] == b"fixedstruct.rs" for f in fr[:6]) and b"strlen" in r.err else (fr[0][0].decode("latin-1") if fr else "?")
                ctx.violation("C07|valgrind|%s|%s" % ((m.group(1).decode() if m else "error").split(" of size")[0], fam), "valgrind memcheck error on %s of %s" % (j[3], j[2]),
                              src_dir=j[1], files={"valgrind.log": r.err[-20000:]}, info={"argv": r.argv})


# --------------------------------------------------------------------------
# Miri: the unsafe record decoding, interpreted

MIRI_UB = re.compile(r"error: Undefined Behavior: (.+)")
MIRI_FRAME = re.compile(r"\d+: (s4lib::\S+)")


def run_miri(ctx):
    """Interprets the unsafe decoding of all 16 record layouts (pointer casts, read_unaligned, CStr::from_ptr) under Miri on
    in-memory records at every (mis)alignment: NUL-terminated, full-width and random fills; one (mode, layout, fill) per process
    so one report does not hide the rest."""
    argv, env, cwd = core.miri_cmd()
    rng = ctx.rng
    jobs = []
    count = ctx.pick(12, 60)
    for ti in range(16):
        for mode in ("decode", "score"):
            for fill in ("nul", "full", "random"):
                jobs.append((ti, mode, fill, rng.randint(0, 1 << 30)))

    def one(j):
        ti, mode, fill, seed = j
        return subprocess.run(argv + [mode, str(ti), str(seed), str(count), fill], cwd=cwd, env=env, stdout=subprocess.PIPE, stderr=subprocess.PIPE, timeout=1800)
    for j, p in zip(jobs, core.pmap(one, jobs)):
        ti, mode, fill, seed = j
        err = p.stderr.decode("utf-8", "replace")
        out = p.stdout.decode("utf-8", "replace").strip().splitlines()
        ctx.count("miri processes")
        if p.returncode == 0 and out:
            ctx.evaluated(count, ("miri", ti, mode, fill))
            ctx.count("records interpreted under Miri", count)
            if len(ctx.samples) < 8 and mode == "decode" and fill == "random" and ti % 5 == 0:
                ctx.sample({"miri": out[-1]})
            continue
        m = MIRI_UB.search(err)
        if not m:
            ctx.inconc("miri process failed without a UB report (rc %s)" % p.returncode)
            continue
        ctx.evaluated(count, ("miri", ti, mode, fill, "ub"))
        msg = re.sub(r"alloc\d+|0x[0-9a-f]+|\d+ bytes?|offset \d+|size \d+", "N", m.group(1))[:120]
        frames = [f.split("::")[-1] for f in MIRI_FRAME.findall(err)]
        fam = "?"
        if "score_fixedstruct" in frames and ("from_ptr" in err or "strlen" in err):
            fam = "fixedstruct-string-accessor-CStr::from_ptr<-score_fixedstruct"
            msg = "out-of-bounds-or-dangling-read"
        elif frames:
            fam = frames[0]
        ctx.violation("C07|miri|%s|%s" % (msg, fam), "Miri: %s (layout #%d, mode %s, fill %s)" % (m.group(1)[:200], ti, mode, fill),
                      files={"miri.stderr": err[-6000:].encode()}, info={"argv": argv + [mode, str(ti), str(seed), str(count), fill]})
