"""C17 - memory held for a streamed text log does not grow with its size.

Oracle: the --summary high-water marks ('blocks high', 'lines high', 'syslines
high') of the same periodic content at size n and 64 n. The marks at 64 n may
exceed those at n only by a constant slack (for a plain file with a datetime
window: by c*log2(size)). Peak RSS of the child at both sizes is recorded in the evidence (it includes
per-message index structures, which are book-keeping rather than file data, so
it is reported, not judged).
"""
import math
import os
import re
import resource
import subprocess

from vlib import core, gen

LEVEL = "exploration"


def make_log(path, nbytes, shape, rng):
    """periodic year-bearing log of about nbytes; shape = line-length distribution"""
    t = gen.instant(2023, 1, 1)
    out, tot, i = [], 0, 0
    while tot < nbytes:
        t += gen.NS
        head = gen.render(t, "iso_space", 0) + " M%d " % i
        if shape == "short":
            body = "x" * 60 + "\n"
        elif shape == "long":
            body = "y" * 3000 + "\n"
        elif shape == "multiblock":
            body = "z" * 50 + "\n" + ("\tcontinuation " + "c" * 900 + "\n") * 22      # ~20 KiB per message (5 blocks of 4096)
        else:  # mixed
            body = ("m" * (40 + (i * 37) % 200) + "\n") + ("  more\n" if i % 7 == 0 else "")
        line = (head + body).encode()
        out.append(line)
        tot += len(line)
        i += 1
    data = b"".join(out)
    gen.write(path, data)
    return data, i, t


def run_s4(s4, argv):
    """-> (stderr text, max RSS kB of the child)"""
    p = subprocess.Popen([s4] + argv, stdout=subprocess.DEVNULL, stderr=subprocess.PIPE, env=core.base_env())
    _, err = p.communicate(timeout=600)
    ru = resource.getrusage(resource.RUSAGE_CHILDREN)
    return err.decode("utf-8", "replace"), p.returncode


def measure(args):
    s4, argv = args
    # /usr/bin/time gives the child's own peak RSS (getrusage(CHILDREN) is cumulative over the pool)
    r = core.run(["/usr/bin/time", "-f", "RSS=%M", s4] + argv, core.base_env(), timeout=900)
    e = r.err.decode("utf-8", "replace")

    def g(k):
        m = re.search(k + r"\s*: (\d+)", e)
        return int(m.group(1)) if m else None
    rss = re.search(r"RSS=(\d+)", e)
    return dict(blocks=g("blocks high"), lines=g("lines high"), syslines=g("syslines high"), rss=int(rss.group(1)) if rss else None, rc=r.rc,
                printed=g("Printed syslines"), timed_out=r.timed_out, err=e[-300:])


def run(ctx):
    s4 = core.build_s4()
    rng = ctx.rng
    d = ctx.casedir("mem")
    ctx.rule = ("year-bearing periodic logs of 4 line-length distributions (short lines, 3 kB lines, messages spanning ~3 blocks, mixed) at n and 64 n "
                "blocks, block sizes 4096 / 65536, plain / gz / bz2 / lz4, with and without a datetime window; distinct = (shape, container, blocksz, "
                "window, size); refuted if a high-water mark at 64 n exceeds the mark at n by more than the slack")
    ctx.assumptions = ["the summary's high-water marks are the project's own accounting of blocks / lines / messages held"]
    shapes = ["short", "long", "multiblock", "mixed"]
    cfgs = []
    for shape in shapes:
        for bsz in ctx.pick([4096], [4096, 65536, 1024]):
            n_small = 64 if bsz <= 4096 else 16
            ratio = 64
            cfgs.append((shape, bsz, n_small * bsz, n_small * bsz * ratio))
    jobs, meta = [], []
    for shape, bsz, small, big in cfgs:
        for size in (small, big):
            base = os.path.join(d, "%s-%d-%d" % (shape, bsz, size))
            data, nmsg, tlast = make_log(base + ".log", size, shape, rng)
            paths = {"plain": base + ".log"}
            for c in ["gz", "bz2", "lz4"]:
                kw = {"split": 65536, "stored": True} if c == "lz4" else ({"level": 1} if c in ("gz", "bz2") else {})
                paths[c] = gen.write(base + ".log." + c, gen.contain(data, c, **kw))
            mid = gen.instant(2023, 1, 1) + (nmsg // 2) * gen.NS
            y, mo, dd, hh, mi, ss, _, _ = gen.civil(mid)
            wmid = "%04d-%02d-%02dT%02d:%02d:%02d+00:00" % (y, mo, dd, hh, mi, ss)
            for cont, p in paths.items():
                for win in (None, "after-mid"):
                    if win and cont not in ("plain", "gz", "lz4"):
                        continue
                    argv = ["--color", "never", "-t=+00:00", "--blocksz", str(bsz), "--summary"] + (["-a", wmid] if win else []) + [p]
                    jobs.append((s4, argv))
                    meta.append((shape, bsz, cont, win, size, small, nmsg, data.count(b"\n")))
            del data
    res = core.pmap(measure, jobs, workers=8)
    table = {}
    for m, r in zip(meta, res):
        shape, bsz, cont, win, size, small, nmsg, nlines = m
        if r["timed_out"] or r["blocks"] is None:
            ctx.inconc("no-summary")
            continue
        ctx.evaluated(1, (shape, bsz, cont, win, size))
        table[(shape, bsz, cont, win, "small" if size == small else "big")] = dict(r, size=size, nmsg=nmsg, nlines=nlines)
    rows = []
    for (shape, bsz, cont, win, which), r in sorted(table.items(), key=lambda kv: str(kv[0])):
        if which != "small":
            continue
        b = table.get((shape, bsz, cont, win, "big"))
        if b is None:
            continue
        s = r
        nb_s, nb_b = s["size"] // bsz, b["size"] // bsz
        row = {"shape": shape, "blocksz": bsz, "container": cont, "window": win, "blocks": [nb_s, nb_b],
               "blocks_high": [s["blocks"], b["blocks"]], "lines_high": [s["lines"], b["lines"]], "syslines_high": [s["syslines"], b["syslines"]],
               "rss_kb": [s["rss"], b["rss"]]}
        rows.append(row)
        ctx.count("pairs (n, 64n) compared")
        info = {"row": row, "small_err": s["err"][-200:]}
        slack_log = 4 * math.log2(max(2, nb_b)) if (win and cont == "plain") else 0
        avg_msg = b["size"] / float(max(1, b["nmsg"]))
        sclass = "messages-much-smaller-than-a-block" if avg_msg * 2 < bsz else "messages-about-a-block-or-larger"
        wclass = "window" if win else "nowindow"
        # lines / messages held
        # each probe of the binary search may leave the lines of the message(s) it parsed: the logarithmic allowance for
        # lines is counted in messages' worth of lines
        lpm = max(1.0, b["nlines"] / float(max(1, b["nmsg"])))
        for key in ("lines", "syslines"):
            if b[key] > s[key] + 8 + slack_log * (lpm if key == "lines" else 1):
                ctx.violation("C17|%s-high-grows-with-size|%s|%s|%s" % (key, cont, wclass, sclass),
                              "%s high %d at %d blocks vs %d at %d blocks (%s, blocksz %d)" % (key, b[key], nb_b, s[key], nb_s, shape, bsz), info=info)
        # blocks held
        grow = b["blocks"] - s["blocks"]
        if grow > 4 + slack_log:
            rate = grow / float(nb_b - nb_s)
            sig = "C17|blocks-high-grows-with-size|%s|%s|%s" % (cont, wclass, sclass)
            if sclass == "messages-much-smaller-than-a-block":
                sig += "|under-2-percent-of-blocks-never-released" if rate < 0.02 else "|2-percent-or-more-never-released"
            ctx.violation(sig, "blocks high %d at %d blocks vs %d at %d blocks (%s, blocksz %d): %.2f %% of the added blocks stayed in memory" % (
                b["blocks"], nb_b, s["blocks"], nb_s, shape, bsz, 100 * rate), info=info)
        # RSS cross-check
        if s["rss"] and b["rss"]:
            dr = (b["rss"] - s["rss"]) * 1024.0
            ds = float(b["size"] - s["size"])
            ctx.extra.setdefault("rss_growth_over_size_growth", {})["%s/%s/%d/%s" % (shape, cont, bsz, "win" if win else "nowin")] = round(dr / ds, 3)
            # reported only: peak RSS includes the per-message index structures (about 0.2 .. 2.7 x the file size on this tree,
            # depending on the message size), so it is evidence, not a verdict
    ctx.extra["table"] = rows
    for r in rows[:6]:
        ctx.sample(r)
