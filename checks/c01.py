"""C01 - merged output is chronological with a deterministic tie rule.

Oracle: reference k-way merge (vlib.cases.merge_model) over generator-known
instants; stdout must equal, byte for byte, the concatenation of the messages in
model order. Every case is run under several worker schedules (hooked delays).
"""
import itertools
import os

from vlib import cases, core, gen

LEVEL = "exploration"


def build_case(ctx, rng, cid):
    n = rng.choice([1, 2, 2, 3, 3, 4, 5, 6, 8])
    tz_min = rng.choice([0, 0, -480, 330, 765])
    t0 = gen.instant(rng.choice([1999, 2000, 2023, 2024]), rng.randint(1, 12), rng.randint(1, 28),
                     rng.randint(0, 23), rng.randint(0, 59), rng.randint(0, 59), 0, 0)
    d = ctx.casedir("case%05d" % cid)
    srcs = []
    shared_mode = rng.choice(["ties", "subsec", "subus", None])
    for sid in range(n):
        cnt = rng.choice([0, 1, 1, 2, 3, 5, 8, 20, 60]) if ctx.quick else rng.choice([0, 1, 2, 3, 5, 8, 20, 60, 200])
        codec = rng.choice([None, None, None, "gz", "bz2", "xz", "lz4", "tar"])
        chrono = rng.random() < 0.85
        s = cases.make_source(rng, sid, cnt, t0 + rng.choice([0, 0, 1, 2]) * gen.NS, tz_min,
                              mode=shared_mode, codec=codec, chrono=chrono)
        s.write(d, rng)
        srcs.append(s)
    return d, srcs, tz_min


def classify(order):
    """tie structure of a case: number of cross-source equal-instant pairs (capped)."""
    seen = {}
    for k, s in enumerate(order):
        for m in s.msgs:
            seen.setdefault(m.ns, set()).add(k)
    return sum(1 for v in seen.values() if len(v) > 1)


def one_case(args):
    s4, d, srcs, tz_min, orders, sched_seeds = args
    res = []
    for order in orders:
        osrc = [srcs[i] for i in order]
        exp = cases.expected_stdout(cases.merge_model(srcs, osrc))
        argv = [s4, "--color", "never", cases.tz_arg(tz_min)] + [s.arg for s in osrc]
        for ss in sched_seeds:
            extra = {}
            if ss is not None:
                extra["S4_VERIF_SCHED"] = "seed=%d,p=%s,max_us=%d" % (ss, ["0.05", "0.3", "1.0"][ss % 3], [200, 2000, 800][ss % 3])
            r = core.run(argv, core.base_env(extra=extra), timeout=180)
            res.append((order, ss, r, exp))
    return res


def run(ctx):
    s4 = core.build_s4()
    rng = ctx.rng
    ncases = ctx.pick(260, 3000)
    nsched = ctx.pick(3, 8)
    ctx.rule = ("random sets of 1..8 text sources (plain/gz/bz2/xz/lz4/tar, 0..200 messages, ties, sub-second "
                "steps, mixed UTC offsets, 15%% non-chronological sources), all argument orders for N<=3 and sampled "
                "permutations above, each under %d worker schedules; distinct = (N, #cross-source ties, codecs, "
                "argument order) tuples; non-trivial = N>=2 and at least one cross-source tie or interleaving") % nsched
    ctx.assumptions = ["python stdlib codecs and the lz4 frame writer in vlib/gen.py produce valid streams",
                       "hook delays are placed outside the program's locks"]
    jobs = []
    for cid in range(ncases):
        d, srcs, tz_min = build_case(ctx, rng, cid)
        n = len(srcs)
        perms = list(itertools.permutations(range(n)))
        if len(perms) > 6:
            perms = [tuple(range(n)), tuple(reversed(range(n)))] + rng.sample(perms, 2)
        seeds = [None] + [rng.randint(0, 1 << 30) for _ in range(nsched - 1)]
        jobs.append((s4, d, srcs, tz_min, perms, seeds))
    for job, results in zip(jobs, core.pmap(one_case, jobs)):
        _, d, srcs, tz_min, _, _ = job
        for order, ss, r, exp in results:
            osrc = [srcs[i] for i in order]
            if r.timed_out:
                ctx.inconc("watchdog")
                continue
            ties = classify(osrc)
            nontrivial = len(osrc) >= 2 and sum(1 for s in osrc if s.msgs) >= 2
            klass = (len(osrc), min(ties, 20), tuple(s.codec for s in osrc), order) if nontrivial else None
            ctx.evaluated(1, klass)
            ctx.count("runs")
            ctx.count("cross_source_tie_instants", ties)
            if ss is not None:
                ctx.count("runs_with_schedule_perturbation")
            if r.rc not in (0, 1):
                ctx.violation("C01|exit|rc=%s" % r.rc, "exit status %s" % r.rc, src_dir=d,
                              info={"argv": r.argv, "env": r.env, "stderr": r.err[-2000:]})
                continue
            if r.out != exp:
                got = cases.tokens_of(r.out)
                want = cases.tokens_of(exp)
                if got == want:
                    sig, what = "C01|bytes-differ-same-token-order", "message bytes differ although token order is right"
                elif sorted(got) == sorted(want):
                    # find first divergence
                    k = next(i for i, (a, b) in enumerate(zip(got, want)) if a != b)
                    src_g, src_w = got[k][0], want[k][0]
                    nsg = srcs[src_g].msgs[got[k][1]].ns
                    nsw = srcs[src_w].msgs[want[k][1]].ns
                    if src_g == src_w:
                        sig = "C01|order|within-source"
                    elif nsg == nsw:
                        sig = "C01|order|cross-source-tie"
                    else:
                        sig = "C01|order|not-earliest-pending"
                    what = "printed %s where model has %s at position %d" % (got[k], want[k], k)
                else:
                    sig, what = "C01|messages-missing-or-repeated", "token multiset differs: got %d want %d" % (len(got), len(want))
                ctx.violation(sig, what, src_dir=d, files={"expected.stdout": exp, "observed.stdout": r.out},
                              info={"argv": r.argv, "env": r.env, "stderr": r.err[-2000:]})
            elif len(ctx.samples) < 4 and nontrivial and ties:
                ctx.sample({"argv": r.argv[1:], "sched": r.env.get("S4_VERIF_SCHED"), "sources": len(osrc),
                            "cross_source_tie_instants": ties, "stdout_head": r.out[:300]})
