"""C01 - merged output is chronological with a deterministic tie rule.

Part 2 (mixed kinds): text, fixed-struct, evtx and journal sources merged in one
run. The hook trace's `print` events give the executed merge order as
(source, instant); it must equal the reference merge over per-source instant
lists that come from the generator (text, fixed-struct) or from the independent
readers (evtx-crate dump, journalctl), and stdout must hold exactly the bytes of
the sources' solo runs.

Oracle: reference k-way merge (vlib.cases.merge_model) over generator-known
instants; stdout must equal, byte for byte, the concatenation of the messages in
model order. Every case is run under several worker schedules (hooked delays).
"""
import itertools
import os

from vlib import cases, core, gen

LEVEL = "exploration"


def build_case(ctx, rng, cid):
    n = rng.choice([1, 2, 2, 3, 3, 4, 5, 6, 8])
    tz_min = rng.choice([0, 0, -480, 330, 765])
    t0 = gen.instant(rng.choice([1999, 2000, 2023, 2024]), rng.randint(1, 12), rng.randint(1, 28),
                     rng.randint(0, 23), rng.randint(0, 59), rng.randint(0, 59), 0, 0)
    d = ctx.casedir("case%05d" % cid)
    srcs = []
    shared_mode = rng.choice(["ties", "subsec", "subus", None])
    for sid in range(n):
        cnt = rng.choice([0, 1, 1, 2, 3, 5, 8, 20, 60]) if ctx.quick else rng.choice([0, 1, 2, 3, 5, 8, 20, 60, 200])
        codec = rng.choice([None, None, None, "gz", "bz2", "xz", "lz4", "tar"])
        chrono = rng.random() < 0.85
        s = cases.make_source(rng, sid, cnt, t0 + rng.choice([0, 0, 1, 2]) * gen.NS, tz_min,
                              mode=shared_mode, codec=codec, chrono=chrono, traces=rng.choice([0, 0, 0, 0.2, 0.5]))
        if cases.blockzero_class(b"", s.msgs, 65536, s.trailing_newline):
            # a file that begins with a stack-trace sized message can fall into the block-zero admission class (C02's known
            # finding: fewer than 3 lines / 2 messages inside the first 8096+ bytes); not this property's subject
            s = cases.make_source(rng, sid, cnt, t0 + rng.choice([0, 0, 1, 2]) * gen.NS, tz_min, mode=shared_mode, codec=codec, chrono=chrono)
        s.write(d, rng)
        srcs.append(s)
    return d, srcs, tz_min


def classify(order):
    """tie structure of a case: number of cross-source equal-instant pairs (capped)."""
    seen = {}
    for k, s in enumerate(order):
        for m in s.msgs:
            seen.setdefault(m.ns, set()).add(k)
    return sum(1 for v in seen.values() if len(v) > 1)


def one_case(args):
    s4, d, srcs, tz_min, orders, sched_seeds = args
    res = []
    for order in orders:
        osrc = [srcs[i] for i in order]
        exp = cases.expected_stdout(cases.merge_model(srcs, osrc))
        argv = [s4, "--color", "never", cases.tz_arg(tz_min)] + [s.arg for s in osrc]
        for ss in sched_seeds:
            extra = {}
            if ss is not None:
                extra["S4_VERIF_SCHED"] = "seed=%d,p=%s,max_us=%d" % (ss, ["0.05", "0.3", "1.0"][ss % 3], [200, 2000, 800][ss % 3])
            r = core.run(argv, core.base_env(extra=extra), timeout=180)
            res.append((order, ss, r, exp))
    return res


def run(ctx):
    s4 = core.build_s4()
    rng = ctx.rng
    ncases = ctx.pick(260, 3000)
    nsched = ctx.pick(3, 8)
    ctx.rule = ("random sets of 1..8 text sources (plain/gz/bz2/xz/lz4/tar, 0..200 messages, ties, sub-second "
                "steps, mixed UTC offsets, 15%% non-chronological sources), all argument orders for N<=3 and sampled "
                "permutations above, each under %d worker schedules; distinct = (N, #cross-source ties, codecs, "
                "argument order) tuples; non-trivial = N>=2 and at least one cross-source tie or interleaving") % nsched
    ctx.assumptions = ["python stdlib codecs and the lz4 frame writer in vlib/gen.py produce valid streams",
                       "hook delays are placed outside the program's locks"]
    jobs = []
    for cid in range(ncases):
        d, srcs, tz_min = build_case(ctx, rng, cid)
        n = len(srcs)
        perms = list(itertools.permutations(range(n)))
        if len(perms) > 6:
            perms = [tuple(range(n)), tuple(reversed(range(n)))] + rng.sample(perms, 2)
        seeds = [None] + [rng.randint(0, 1 << 30) for _ in range(nsched - 1)]
        jobs.append((s4, d, srcs, tz_min, perms, seeds))
    run_mixed(ctx, s4)
    for job, results in zip(jobs, core.pmap(one_case, jobs)):
        _, d, srcs, tz_min, _, _ = job
        for order, ss, r, exp in results:
            osrc = [srcs[i] for i in order]
            if r.timed_out:
                ctx.inconc("watchdog")
                continue
            ties = classify(osrc)
            nontrivial = len(osrc) >= 2 and sum(1 for s in osrc if s.msgs) >= 2
            klass = (len(osrc), min(ties, 20), tuple(s.codec for s in osrc), order) if nontrivial else None
            ctx.evaluated(1, klass)
            ctx.count("runs")
            ctx.count("cross_source_tie_instants", ties)
            if ss is not None:
                ctx.count("runs_with_schedule_perturbation")
            if r.rc not in (0, 1):
                ctx.violation("C01|exit|rc=%s" % r.rc, "exit status %s" % r.rc, src_dir=d,
                              info={"argv": r.argv, "env": r.env, "stderr": r.err[-2000:]})
                continue
            if r.out != exp:
                got = cases.tokens_of(r.out)
                want = cases.tokens_of(exp)
                if got == want:
                    sig, what = "C01|bytes-differ-same-token-order", "message bytes differ although token order is right"
                elif sorted(got) == sorted(want):
                    # find first divergence
                    k = next(i for i, (a, b) in enumerate(zip(got, want)) if a != b)
                    src_g, src_w = got[k][0], want[k][0]
                    nsg = srcs[src_g].msgs[got[k][1]].ns
                    nsw = srcs[src_w].msgs[want[k][1]].ns
                    if src_g == src_w:
                        sig = "C01|order|within-source"
                    elif nsg == nsw:
                        sig = "C01|order|cross-source-tie"
                    else:
                        sig = "C01|order|not-earliest-pending"
                    what = "printed %s where model has %s at position %d" % (got[k], want[k], k)
                else:
                    sig, what = "C01|messages-missing-or-repeated", "token multiset differs: got %d want %d" % (len(got), len(want))
                ctx.violation(sig, what, src_dir=d, files={"expected.stdout": exp, "observed.stdout": r.out},
                              info={"argv": r.argv, "env": r.env, "stderr": r.err[-2000:]})
            elif len(ctx.samples) < 4 and nontrivial and ties:
                ctx.sample({"argv": r.argv[1:], "sched": r.env.get("S4_VERIF_SCHED"), "sources": len(osrc),
                            "cross_source_tie_instants": ties, "stdout_head": r.out[:300]})


# --------------------------------------------------------------------------
# part 2: mixed kinds, decided on the hook trace

def mixed_sources(ctx, rng, d, h):
    """-> list of (kind, path, [instants ns in the order the source must deliver them])"""
    from checks import c09, c10
    from vlib import fixtures, fsgen, tracecheck
    out = []
    for p in fixtures.evtxs():
        recs, _ = c10.dump(h, p)
        if recs:
            keyed = sorted(((t, i) for i, (rid, t) in enumerate(recs)))
            out.append(("evtx", p, [t for t, i in keyed]))
    for p in fixtures.journals():
        exp = c09.parse_export(c09.journalctl(p, "export"))
        # the instant s4 merges a journal entry by is its receive time (property C09)
        ts = [int(c09.field(e, b"__REALTIME_TIMESTAMP")) * 1000 for e in exp]
        out.append(("journal", p, ts))
    return out


def mixed_job(args):
    s4, files, tz_min, trace, sched = args
    extra = {"S4_VERIF_TRACE": trace}
    if sched is not None:
        extra["S4_VERIF_SCHED"] = "seed=%d,p=0.3,max_us=1500" % sched
    return core.run([s4, "--color", "never", cases.tz_arg(tz_min)] + files, core.base_env(extra=extra, tmpdir=os.path.dirname(trace)), timeout=300)


def run_mixed(ctx, s4):
    from vlib import fsgen, tracecheck
    rng = ctx.rng
    h = core.build_harness()
    d = ctx.casedir("mixed")
    fixed = mixed_sources(ctx, rng, d, h)
    jobs, meta = [], []
    for cid in range(ctx.pick(120, 1500)):
        cd = os.path.join(d, "m%05d" % cid)
        os.makedirs(cd)
        srcs = []
        # anchor the generated sources near a fixture's time range so the kinds really interleave
        anchor = rng.choice(fixed) if fixed and rng.random() < 0.8 else None
        t0 = (rng.choice(anchor[2]) if anchor and anchor[2] else gen.instant(2023, 3, 10, 3, 49, 43)) // gen.NS * gen.NS
        for sid in range(rng.choice([2, 3, 4, 5])):
            k = rng.choice(["text", "text", "fs", "fix"])
            if k == "fix" and fixed:
                kind, p, ts = rng.choice(fixed)
                if any(x[1] == p for x in srcs):
                    continue
                srcs.append((kind, p, ts))
            elif k == "fs":
                lay = rng.choice([l for l in fsgen.LAYOUTS.values() if getattr(l, "selectable", True)])
                recs, inst = [], []
                t = t0 // gen.NS + rng.randint(-3, 3)
                for i in range(rng.choice([1, 3, 8])):
                    t += rng.choice([0, 1, 1, 2])
                    rec, vals = fsgen.make_record(lay, i, t, usec=rng.choice([0, 0, 500000]))
                    recs.append(rec)
                    inst.append(fsgen.record_instant_ns(lay, vals))
                fd = os.path.join(cd, "fs%d" % sid)
                os.makedirs(fd)
                srcs.append(("fixedstruct", gen.write(os.path.join(fd, lay.filename), b"".join(recs)), sorted(inst)))
            else:
                s = cases.make_source(rng, sid, rng.choice([1, 4, 12]), t0 + rng.randint(-2, 2) * gen.NS, 0, mode=rng.choice(["ties", "dense", "subsec"]),
                                      codec=rng.choice([None, None, "gz"]), chrono=True, ncont_max=1)
                s.write(cd, rng)
                srcs.append(("text", s.arg, [m.ns for m in s.msgs]))
        if len(srcs) < 2:
            continue
        rng.shuffle(srcs)
        for sched in (None, rng.randint(0, 1 << 30)):
            trace = os.path.join(cd, "trace%s" % ("" if sched is None else "s"))
            jobs.append((s4, [x[1] for x in srcs], 0, trace, sched))
            meta.append((cd, srcs, trace))
    for (cd, srcs, trace), r in zip(meta, core.pmap(mixed_job, jobs)):
        if r.timed_out:
            ctx.inconc("watchdog")
            continue
        evs = tracecheck.parse(trace) if os.path.exists(trace) else []
        prints = [(e[4], int(e[5].split("dt=")[1].split(" ")[0])) for e in evs if e[3] == "print"]
        kinds = tuple(sorted({x[0] for x in srcs}))
        # reference merge over per-source instant lists (FIFO per source, ties by naming order)
        pos = [0] * len(srcs)
        want = []
        while True:
            best = None
            for k, x in enumerate(srcs):
                if pos[k] < len(x[2]):
                    t = x[2][pos[k]]
                    if best is None or t < best[0]:
                        best = (t, k)
            if best is None:
                break
            want.append((best[1], best[0]))
            pos[best[1]] += 1
        nties = len(want) - len({t for _, t in want})
        ctx.evaluated(1, ("mixed", kinds, len(srcs), min(nties, 10)) if len(kinds) >= 2 else None)
        ctx.count("mixed-kind runs")
        ctx.count("mixed-kind prints checked", len(prints))
        if r.rc not in (0, 1):
            ctx.violation("C01|mixed|exit|rc=%s" % r.rc, "exit status %s" % r.rc, src_dir=cd, info={"argv": r.argv, "env": r.env, "stderr": r.err[-300:]})
            continue
        if prints != want:
            if sorted(prints) == sorted(want):
                k = next(i for i in range(len(want)) if prints[i] != want[i])
                sig = "C01|mixed|order|%s" % ("cross-source-tie" if prints[k][1] == want[k][1] else "not-earliest-pending")
                what = "print #%d is (source %d, t=%d), reference merge has (source %d, t=%d); kinds %s" % (k, prints[k][0], prints[k][1], want[k][0], want[k][1], [x[0] for x in srcs])
            else:
                sig = "C01|mixed|messages-differ|%s" % "+".join(kinds)
                what = "%d prints, reference has %d messages; kinds %s" % (len(prints), len(want), [x[0] for x in srcs])
            ctx.violation(sig, what, src_dir=cd, info={"argv": r.argv, "env": r.env, "stderr": r.err[-300:]})
        elif len(ctx.samples) < 6 and len(kinds) >= 3 and nties:
            ctx.sample({"mixed_kinds": [x[0] for x in srcs], "files": [os.path.basename(x[1]) for x in srcs], "messages": len(want), "equal-instant pairs": nties,
                        "first_prints": prints[:5]})
