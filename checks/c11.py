"""C11 - year-less timestamps receive the right year.

Oracle: the generator knows every message's full instant and renders it without
the year (RFC 3164 'Mon dd HH:MM:SS'). The file's modification time is placed
anywhere inside the last message's year *in the -t zone* (filesystem mtime for
plain/bz2/xz/lz4, the gzip header MTIME, the tar member mtime). s4's
--prepend-utc prefix of every message must be the generator's instant, messages
stay in file order, and windows / cross-file merges use the inferred dates.
Excluded by construction (documented limitation, Issue #245): a 29 February
message followed by a message of a later year. Gaps between consecutive messages
are kept under 363 days so the December-to-January wrap is visible (by two days
or more in the same-year reading).
"""
import os
import re

from vlib import cases, core, gen

LEVEL = "exploration"

PFX = re.compile(rb"^(\d{4})(\d\d)(\d\d)T(\d\d)(\d\d)(\d\d):")


def render_yearless(ns, tz_min, style):
    y, mo, d, h, mi, s, n, wd = gen.civil(ns, tz_min)
    if style == "rfc3164":
        return "%s %2d %02d:%02d:%02d" % (gen.MONTHS[mo - 1], d, h, mi, s)
    if style == "rfc3164_0":
        return "%s %02d %02d:%02d:%02d" % (gen.MONTHS[mo - 1], d, h, mi, s)
    return "<14>%s %2d %02d:%02d:%02d" % (gen.MONTHS[mo - 1], d, h, mi, s)


def year_bounds(y, tz_min):
    return gen.instant(y, 1, 1, 0, 0, 0, 0, tz_min), gen.instant(y + 1, 1, 1, 0, 0, 0, 0, tz_min) - gen.NS


def make_case(ctx, rng, cid):
    d = ctx.casedir("case%05d" % cid)
    tz_min = rng.choice([0, -480, 330, 765, -720, 840])
    wraps = rng.choice([0, 0, 1, 1, 2, 4])
    n = rng.choice([2, 3, 6, 15, 40])
    style = rng.choice(["rfc3164", "rfc3164", "rfc3164_0", "pri"])
    last_year = rng.choice([2001, 2016, 2020, 2023, 2024])
    # build backwards from the last message
    lo, hi = year_bounds(last_year, tz_min)
    last = rng.randint(lo // gen.NS, hi // gen.NS) * gen.NS
    if rng.random() < 0.3:
        last = rng.choice([lo + rng.randint(0, 3600) * gen.NS, hi - rng.randint(0, 3600) * gen.NS])   # right after / before New Year
    times = [last]
    need_wraps = wraps
    for i in range(n - 1):
        cur = times[-1]
        y = gen.civil(cur, tz_min)[0]
        ylo, _ = year_bounds(y, tz_min)
        into_year = (cur - ylo) // gen.NS
        if need_wraps > 0 and into_year < 340 * 86400 and rng.random() < max(0.25, need_wraps / max(1, (n - 1 - i))):
            # previous message lies in the previous year, less than 300 days before `cur`, and (since the gap is
            # under a year) later in the calendar than `cur`: the December-to-January wrap is visible
            # total gap under a year, and the wrap visible by at least two days in the same-year reading
            # (the program's rule: a backwards jump of more than 25 hours means a new year)
            back = rng.randint(1, max(2, 362 * 86400 - into_year))
            if rng.random() < 0.3:
                back = max(1, 362 * 86400 - into_year - rng.randint(0, 5 * 86400))     # gaps close to a year
            prev = ylo - back * gen.NS
            if (prev + 365 * 86400 * gen.NS) - cur < 2 * 86400 * gen.NS:
                prev = ylo - gen.NS
            need_wraps -= 1
        else:
            room = cur - ylo
            gap = min(room, rng.choice([0, 1, 60, 3600, 86400, 20 * 86400, 100 * 86400]) * gen.NS)
            prev = cur - gap
        times.append(prev)
    times.reverse()
    # exclusion: a 29 Feb message followed (anywhere later) by a message of a later year
    for i, t in enumerate(times):
        c = gen.civil(t, tz_min)
        if c[1] == 2 and c[2] == 29 and any(gen.civil(u, tz_min)[0] > c[0] for u in times[i + 1:]):
            return None
    msgs = []
    for i, t in enumerate(times):
        head = render_yearless(t, tz_min, style) + " host app[%d]: S0M%d " % (100 + i, i)
        data = head.encode() + gen.filler(rng, rng.randint(0, 30)) + b"\n"
        for _ in range(rng.choice([0, 0, 1])):
            data += b"\t" + gen.filler(rng, rng.randint(1, 30)) + b"\n"
        msgs.append(gen.Msg(t, data, "S0M%d" % i, 0, i))
    src = cases.Source(0, msgs, None, tz_min, None, True)
    data = src.plain_bytes()
    # mtime: anywhere in the last message's year in the -t zone
    lo, hi = year_bounds(gen.civil(times[-1], tz_min)[0], tz_min)
    mt = rng.choice([lo // gen.NS + rng.randint(0, 7200), hi // gen.NS - rng.randint(0, 7200), rng.randint(lo // gen.NS, hi // gen.NS),
                     min(hi // gen.NS, times[-1] // gen.NS + rng.randint(0, 3600))])
    other = 1_234_567_890   # an unrelated mtime (2009) for the filesystem when the container stores its own
    cont = rng.choice([None, None, None, "gz", "bz2", "xz", "lz4", "tar"])
    if cont is None:
        path = gen.write(os.path.join(d, "y.log"), data, mt)
    elif cont == "gz":
        path = gen.write(os.path.join(d, "y.log.gz"), gen.gz_bytes(data, mtime=mt), other)
    elif cont == "tar":
        path = gen.write(os.path.join(d, "y.tar"), gen.tar_bytes([("var/log/y.log", data, mt)]), other)
    else:
        kw = {"split": 65536, "stored": True} if cont == "lz4" else {}
        path = gen.write(os.path.join(d, "y.log." + cont), gen.contain(data, cont, **kw), mt)
    # a year-bearing companion log for the cross-file merge
    comp = None
    if rng.random() < 0.4:
        t0 = times[rng.randrange(len(times))] - 30 * gen.NS
        comp = cases.make_source(rng, 1, rng.choice([1, 3, 6]), t0, tz_min, mode="spread", notation="iso_space", chrono=True, ncont_max=0, trailing_newline=True)
        comp.path = comp.arg = gen.write(os.path.join(d, "full.log"), comp.plain_bytes(), other)
    return dict(d=d, tz=tz_min, src=src, path=path, cont=cont, comp=comp, wraps=wraps, mt=mt, style=style, times=times)


def bound_str(ns):
    y, mo, d, h, mi, s, n, _ = gen.civil(ns, 0)
    return "%04d-%02d-%02dT%02d:%02d:%02d+00:00" % (y, mo, d, h, mi, s)


def job(args):
    s4, c, runs = args
    out = []
    for name, extra, files in runs:
        r = core.run([s4, "--color", "never", cases.tz_arg(c["tz"]), "-u", "-d", "%Y%m%dT%H%M%S"] + extra + files,
                     core.base_env(tmpdir=c["d"]), timeout=120)
        out.append((name, r))
    return out


def run(ctx):
    s4 = core.build_s4()
    rng = ctx.rng
    ncases = ctx.pick(500, 8000)
    ctx.rule = ("year-less RFC 3164 logs (3 spellings) spanning 0..4 year boundaries, gaps < 363 days, mtimes anywhere in the last message's year "
                "incl. within 2 h of New Year in 6 zones (-12:00..+14:00), plain / gz header MTIME / tar member mtime / bz2 / xz / lz4, block sizes, "
                "windows on inferred dates, merge with a year-bearing log; distinct = (wraps, container, zone, style, mtime position class, variant)")
    jobs, metas = [], []
    for cid in range(ncases):
        c = make_case(ctx, rng, cid)
        if c is None:
            ctx.count("cases skipped by the documented 29-February exclusion")
            continue
        inst = sorted(set(c["times"]))
        bsz = rng.choice([64, 128, 4096, 65536])
        if cases.blockzero_class(b"", c["src"].msgs, bsz, True) is not None:
            bsz = 65536      # block-zero admission is C02/C12's subject
        c["bsz"] = bsz
        runs = [("plain", ["--blocksz", str(bsz)], [c["path"]])]
        a, b = sorted([rng.choice(inst), rng.choice(inst)])
        runs.append(("window", ["-a", bound_str(a), "-b", bound_str(b)], [c["path"]]))
        c["win"] = (a, b)
        if c["comp"] is not None:
            order = rng.choice([0, 1])
            c["order"] = order
            runs.append(("merge", [], [c["path"], c["comp"].arg] if order == 0 else [c["comp"].arg, c["path"]]))
        jobs.append((s4, c, runs))
        metas.append(c)
    for c, results in zip(metas, core.pmap(job, jobs)):
        src = c["src"]
        lo, hi = year_bounds(gen.civil(c["times"][-1], c["tz"])[0], c["tz"])
        mpos = "near-year-start" if c["mt"] - lo // gen.NS <= 7200 else ("near-year-end" if hi // gen.NS - c["mt"] <= 7200 else "inside")
        for name, r in results:
            if r.timed_out:
                ctx.inconc("watchdog")
                continue
            ctx.evaluated(1, (c["wraps"], c["cont"], c["tz"], c["style"], mpos, name))
            ctx.count("variant:%s" % name)
            ctx.count("year boundaries in file:%d" % c["wraps"])
            ctx.count("mtime:%s" % mpos)
            # expected: (token, instant) sequence
            if name == "merge":
                order = [src, c["comp"]] if c["order"] == 0 else [c["comp"], src]
                merged = cases.merge_model([src, c["comp"]], order)
            elif name == "window":
                merged = cases.merge_model([src], [src], c["win"][0], c["win"][1])
            else:
                merged = cases.merge_model([src], [src])
            want = [(s.msgs[i].token, s.msgs[i].ns // gen.NS) for s, i in merged]
            got = []
            for ln in r.out.split(b"\n"):
                m = PFX.match(ln)
                t = cases.TOKEN_RE.search(ln)
                if m and t:
                    y, mo, d, h, mi, sec = (int(x) for x in m.groups())
                    got.append(("S%sM%s" % (t.group(1).decode(), t.group(2).decode()), gen.instant(y, mo, d, h, mi, sec) // gen.NS))
            if got == want:
                if len(ctx.samples) < 4 and c["wraps"] >= 1 and mpos != "inside":
                    ctx.sample({"argv": r.argv[1:], "wraps": c["wraps"], "container": c["cont"], "mtime_position": mpos, "first": r.out[:90], "messages": len(want)})
                continue
            info = {"argv": r.argv, "env": r.env, "stderr": r.err[-300:], "mtime": c["mt"], "tz_min": c["tz"], "container": c["cont"], "wraps": c["wraps"]}
            # known class: a 29 February message whose predecessor lies in the previous year is glued to that predecessor,
            # which shows up as a wrong date, a missing message or a changed merge order depending on the variant
            f29 = [j for j in range(1, len(src.msgs)) if gen.civil(src.msgs[j].ns, c["tz"])[1:3] == (2, 29)
                   and gen.civil(src.msgs[j - 1].ns, c["tz"])[0] < gen.civil(src.msgs[j].ns, c["tz"])[0]]
            if f29:
                glued = src.msgs[f29[0]].token
                # the 29 February messages that directly follow it (same day) share its fate
                run = {glued}
                j = f29[0] + 1
                while j < len(src.msgs) and gen.civil(src.msgs[j].ns, c["tz"])[:3] == gen.civil(src.msgs[f29[0]].ns, c["tz"])[:3]:
                    run.add(src.msgs[j].token)
                    j += 1
                gl = [g for g in got if g[0] == glued]
                wl = [w for w in want if w[0] == glued]
                # (got != want here) -- in such a file every variant is affected through that one message: it is printed with the
                # predecessor's date, as part of the predecessor (so a window that selects the predecessor prints it too), or
                # re-ordered in a merge
                others_ok = [g for g in got if g[0] not in run] == [w for w in want if w[0] not in run]
                if others_ok or (wl and (not gl or gl[0][1] != wl[0][1])):
                    ctx.violation("C11|feb-29-message-directly-after-a-year-wrap|dated-as-its-predecessor",
                                  "message %s (29 February, predecessor in the previous year) is printed with its predecessor's date" % glued, src_dir=c["d"],
                                  files={"observed.stdout": r.out}, info=info)
                    continue
            gt, wt = [g[0] for g in got], [w[0] for w in want]
            if gt == wt:
                k = next(i for i in range(len(got)) if got[i] != want[i])
                dy = round((got[k][1] - want[k][1]) / (365.25 * 86400))
                filler = [g for g, w in zip(got, want) if g != w and g[1] < 5 * 365 * 86400]
                # a 29 February message whose predecessor lies in the previous year
                bad_idx = [i for i, (g, w) in enumerate(zip(got, want)) if g != w]
                feb29 = []
                if True:
                    byt = {m.token: m.ns for m in src.msgs}
                    toks = [m.token for m in src.msgs]
                    for i in bad_idx:
                        tk = want[i][0]
                        j = toks.index(tk) if tk in toks else -1
                        cj = gen.civil(byt[tk], c["tz"]) if j >= 0 else None
                        if j > 0 and cj is not None and cj[1] == 2 and cj[2] == 29 and gen.civil(src.msgs[j - 1].ns, c["tz"])[0] < cj[0]:
                            feb29.append(i)
                if feb29 and feb29 == bad_idx:
                    sig = "C11|feb-29-message-directly-after-a-year-wrap|dated-as-its-predecessor"
                elif filler and len(filler) == sum(1 for g, w in zip(got, want) if g != w) and c["cont"] is not None and c.get("bsz", 65536) < 128 and name == "plain":
                    # the messages at the start of a streamed file keep the filler year 1971/1972
                    sig = "C11|filler-year-left-on-first-messages|streamed-file|blocksz-below-128"
                elif all(abs((g[1] - w[1])) >= 300 * 86400 for g, w in zip(got, want) if g != w):
                    sig = "C11|wrong-year|%s|%+d|mtime-%s" % (c["cont"], dy, mpos)
                else:
                    sig = "C11|wrong-instant|%s" % c["cont"]
                what = "message %s dated %d, generator's instant %d (%+d years); %d of %d messages differ" % (
                    got[k][0], got[k][1], want[k][1], dy, sum(1 for g, w in zip(got, want) if g != w), len(want))
            elif sorted(gt) == sorted(wt):
                sig, what = "C11|order-differs|%s" % name, "messages printed in another order"
            else:
                sig, what = "C11|selection-differs|%s|%s" % (name, c["cont"]), "printed %d messages, model %d" % (len(gt), len(wt))
            ctx.violation(sig, what, src_dir=c["d"], files={"observed.stdout": r.out}, info=info)
