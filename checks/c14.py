"""C14 - datetime-filter arguments resolve to the documented instant.

Oracle: python evaluation of the documented grammar (help text of -a/-b). The
resolved bound is observed twice: at second resolution in the --summary lines
'Datetime filter -a/-b' and at microsecond resolution through a *probe log* whose
messages sit at the expected instant -1s/-1ms/-1us/0/+1us/+1ms/+1s: the set of
printed messages pins the bound. Forms relative to program start are evaluated
against the same run's 'Datetime Now' line (second-truncated), never against a wall
clock of the check. Near-miss strings must be rejected (exit != 0, nothing on
stdout).
"""
import os
import re

from checks import c19
from vlib import cases, core, dtcat, gen

LEVEL = "exploration"

DELTAS = [-gen.NS, -1_000_000, -1_000, 0, 1_000, 1_000_000, gen.NS]
UNITS = {"w": 7 * 86400, "d": 86400, "h": 3600, "m": 60, "s": 1}
LAYOUTS = {
    # name: (format of date-time, joiner(s) before a zone)
    "compact": ("%04d%02d%02dT%02d%02d%02d", [""]),
    "dash_space": ("%04d-%02d-%02d %02d:%02d:%02d", [" "]),
    "dash_T": ("%04d-%02d-%02dT%02d:%02d:%02d", ["", " "]),
    "slash_space": ("%04d/%02d/%02d %02d:%02d:%02d", [" "]),
}
DATE_ONLY = ["%04d%02d%02d", "%04d-%02d-%02d", "%04d/%02d/%02d"]


def gen_absolute(rng, tz_min, unamb):
    """(string, expected ns, class)"""
    y, mo, d = rng.choice([2000, 2020, 2024, 1999, 2038]), rng.randint(1, 12), rng.randint(1, 28)
    hh, mi, ss = rng.randint(0, 23), rng.randint(0, 59), rng.randint(0, 59)
    kind = rng.choice(["dt", "dt", "dt", "dt", "date", "epoch"])
    if kind == "date":
        f = rng.choice(DATE_ONLY)
        return f % (y, mo, d), gen.instant(y, mo, d, 0, 0, 0, 0, tz_min), "date-only"
    if kind == "epoch":
        ns = gen.instant(y, mo, d, hh, mi, ss)
        return "+%d" % (ns // gen.NS), ns, "epoch"
    lname = rng.choice(sorted(LAYOUTS))
    fmt, joiners = LAYOUTS[lname]
    s = fmt % (y, mo, d, hh, mi, ss)
    fd = rng.choice([0, 3, 6])
    nanos = rng.choice([0, 1_000, 999_999_000, 500_000_000, 678_000_000, rng.randint(0, 999_999) * 1000])
    nanos = gen.trunc(nanos, fd) if fd else 0
    if fd:
        s += "." + gen.frac_str(nanos, fd)
    zk = rng.choice(["none", "none", "hhmm", "hh:mm", "hh", "name"])
    off = tz_min
    if zk != "none":
        j = rng.choice(joiners)
        if zk == "name":
            ab = rng.choice(sorted(k for k, v in unamb.items() if v))
            off = dtcat.ABBR[ab]
            s += j + ab
        else:
            off = rng.choice(dtcat_offsets()) if zk != "hh" else rng.choice(range(-12, 15)) * 60
            s += j + dtcat.zs(off, {"hhmm": "nocolon", "hh:mm": "colon", "hh": "hh"}[zk])
    return s, gen.instant(y, mo, d, hh, mi, ss, nanos, off), "abs:%s:frac%d:zone-%s" % (lname, fd, zk)


def dtcat_offsets():
    return list(range(-12 * 60, 14 * 60 + 1, 15))


def gen_duration(rng):
    """(text without sign/@, seconds)"""
    units = rng.sample(sorted(UNITS), rng.randint(1, 5))
    txt, secs = "", 0
    for u in units:
        n = rng.choice([0, 1, 2, 7, 10, 59, 60, 100, 999, 12345]) if u in "sm" else rng.choice([0, 1, 2, 7, 10, 48, 100])
        txt += "%d%s" % (n, u)
        secs += n * UNITS[u]
    return txt, secs, "".join(units)


NEAR_MISS = [
    "2020-13-01T00:00:00", "2020-02-30 00:00:00", "2020-01-01T25:00:00", "2020-01-01T00:61:00", "20200101T0000", "2020-01-01T00:00:00.12",
    "2020-01-01T00:00:00.1234567", "2020-01-01 00:00:00 +25:00x", "20200101T000000 SST", "2020-01-01 00:00:00 MST", "2020-01-01T00:00:00 XYZ",
    "20200101T000000junk", "yesterday", "", "+", "-", "5d", "+d", "++5d", "+5x", "@", "@5d", "+1.5h", "+5dXYZ", "x+5d", "+5d junk", "+5d-3h",
    "2020/01/01", "01/02/2020", "+12ab", "+-5", "2020-01-01T00:00:00+", "2020-01-01 00:00:00 +", "@+1y",
]
# strings of NEAR_MISS that are in fact inside the documented grammar (kept out of the rejection test)
NEAR_MISS_OK = {"2020/01/01"}


def probe_log(path, points):
    """chronological log with one message per distinct instant in `points` (ns, us resolution)"""
    inst = sorted(set(p for p in points if p > 0))
    lines = []
    for i, ns in enumerate(inst):
        lines.append(gen.render(ns, "iso_t_us_off", 0) + " P%dP probe\n" % i)
    gen.write(path, "".join(lines).encode())
    return inst


def job(args):
    s4, argv, path = args
    return core.run([s4, "--color", "never"] + argv + ["--summary", path], core.base_env(), timeout=60)


def run(ctx):
    s4 = core.build_s4()
    rng = ctx.rng
    from checks.c04 import ambiguity
    unamb = ambiguity(s4)
    ncases = ctx.pick(1200, 20000)
    ctx.rule = ("grammar-driven -a/-b values: absolute (4 date-time layouts x {none,.mmm,.uuuuuu} x {no zone,+hhmm,+hh:mm,+hh,NAME}, 3 date-only forms, "
                "+epoch), relative to start (+/- with every subset/order of w d h m s, multi-digit counts), relative to the other bound (@+/-), "
                "both bounds combined, under 4 --tz-offset values; plus %d near-miss strings that must be rejected; distinct = (form class of -a, "
                "form class of -b, -t)") % len(NEAR_MISS)
    d = ctx.casedir("probes")
    jobs, meta = [], []
    for cid in range(ncases):
        tz_min = rng.choice([0, -480, 330, 765])
        targ = "-t=" + gen.off_str(tz_min)
        # other documented spellings of --tz-offset: "+hhmm", "+hh", and unambiguous zone names
        sp = rng.random()
        if sp < 0.2:
            targ = "-t=" + gen.off_str(tz_min, colon=False)
        elif sp < 0.35 and tz_min % 60 == 0:
            targ = "-t=" + dtcat.zs(tz_min, "hh")
        elif sp < 0.55:
            ab = rng.choice(sorted(k for k, v in unamb.items() if v))
            tz_min = dtcat.ABBR[ab]
            targ = "-t=" + ab
        shape = rng.choice(["a", "b", "ab", "a@b", "b@a", "nowa", "nowb", "now-ab", "nowb@a", "nowa@b"])
        sa = sb = None
        ea = eb = None
        ca = cb = "-"
        rel_a = rel_b = None
        if shape in ("a", "ab", "a@b"):
            sa, ea, ca = gen_absolute(rng, tz_min, unamb)
        if shape in ("b", "b@a"):
            sb, eb, cb = gen_absolute(rng, tz_min, unamb)
        if shape == "ab":
            # second absolute bound later than the first
            for _ in range(20):
                sb, eb, cb = gen_absolute(rng, tz_min, unamb)
                if eb >= ea:
                    break
            else:
                sb, eb, cb = sa, ea, ca
        if shape == "a@b":
            txt, secs, units = gen_duration(rng)
            sb, eb, cb = "@+" + txt, ea + secs * gen.NS, "@+:" + units
        if shape == "b@a":
            txt, secs, units = gen_duration(rng)
            sa, ea, ca = "@-" + txt, eb - secs * gen.NS, "@-:" + units
        if shape in ("nowa", "now-ab"):
            txt, secs, units = gen_duration(rng)
            sa, rel_a, ca = "-" + txt, -secs, "now-:" + units
        if shape == "nowb":
            txt, secs, units = gen_duration(rng)
            sign = rng.choice("+-")
            sb, rel_b, cb = sign + txt, secs if sign == "+" else -secs, "now%s:%s" % (sign, units)
        if shape == "now-ab":
            txt, secs, units = gen_duration(rng)
            sb, rel_b, cb = "+" + txt, secs, "now+:" + units
        if shape == "nowb@a":
            # -b relative to the program's start, -a relative to that -b
            txt, secs, units = gen_duration(rng)
            sign = rng.choice("+-")
            sb, rel_b, cb = sign + txt, secs if sign == "+" else -secs, "now%s:%s" % (sign, units)
            txt2, secs2, units2 = gen_duration(rng)
            sa, rel_a, ca = "@-" + txt2, rel_b - secs2, "@-of-now:" + units2
        if shape == "nowa@b":
            txt, secs, units = gen_duration(rng)
            sa, rel_a, ca = "-" + txt, -secs, "now-:" + units
            txt2, secs2, units2 = gen_duration(rng)
            sb, rel_b, cb = "@+" + txt2, rel_a + secs2, "@+of-now:" + units2
        argv = [targ]
        if sa is not None:
            argv += ["-a=" + sa] if sa.startswith("-") or sa.startswith("@-") else ["-a", sa]
        if sb is not None:
            argv += ["-b=" + sb] if sb.startswith("-") or sb.startswith("@-") else ["-b", sb]
        pts = [p + dl for p in (ea, eb) if p is not None for dl in DELTAS]
        if not pts:
            pts = [gen.instant(2020, 1, 1) + dl for dl in DELTAS]
        path = os.path.join(d, "p%05d.log" % cid)
        inst = probe_log(path, pts)
        jobs.append((s4, argv, path))
        meta.append(("grammar", argv, path, inst, ea, eb, rel_a, rel_b, ca, cb, tz_min))
    # near-miss strings
    base_path = os.path.join(d, "near.log")
    probe_log(base_path, [gen.instant(2020, 1, 1) + dl for dl in DELTAS])
    for s in NEAR_MISS:
        if s in NEAR_MISS_OK:
            continue
        for opt in ("-a", "-b"):
            argv = ["-t=+00:00", "%s=%s" % (opt, s)]
            jobs.append((s4, argv, base_path))
            meta.append(("nearmiss", argv, base_path, None, None, None, None, None, s, opt, 0))
    for combo, why in ((["-a=@+1d", "-b=@-1d"], "both-relative-to-the-other"), (["-a", "2020-01-02", "-b", "2020-01-01"], "after-later-than-before"),
                       (["-a", "2020-01-01T00:00:00.000002", "-b", "2020-01-01T00:00:00.000001"], "after-later-than-before-by-1us"),
                       (["-a=@-1d"], "relative-to-missing-other-bound"), (["-b=@+1d"], "relative-to-missing-other-bound")):
        jobs.append((s4, ["-t=+00:00"] + combo, base_path))
        meta.append(("nearmiss", ["-t=+00:00"] + combo, base_path, None, None, None, None, None, why, "combo", 0))
    for (kind, argv, path, inst, ea, eb, rel_a, rel_b, ca, cb, tz_min), r in zip(meta, core.pmap(job, jobs)):
        if r.timed_out:
            ctx.inconc("watchdog")
            continue
        info = {"argv": r.argv, "env": r.env, "stderr_tail": r.err[-600:], "rc": r.rc}
        if kind == "nearmiss":
            ctx.evaluated(1, ("nearmiss", ca, cb))
            ctx.count("near-miss strings tried")
            if r.rc == 0 or r.out:
                why = "trailing-or-leading-junk-around-relative-offset" if re.search(r"[+-]\d+[wdhms]", ca) and cb != "combo" else "accepted"
                ctx.violation("C14|near-miss-accepted|%s|%r" % (why, ca), "value %r (%s) was accepted: rc=%s, %d bytes on stdout" % (ca, cb, r.rc, len(r.out)),
                              files={"stderr": r.err}, info=info)
            continue
        ctx.evaluated(1, (ca.split(":")[0] + ":" + ":".join(ca.split(":")[2:]) if ca.startswith("abs") else ca.split(":")[0], cb.split(":")[0], tz_min))
        ctx.count("form -a:%s" % ca.split(":")[0])
        ctx.count("form -b:%s" % cb.split(":")[0])
        files, prog = c19.parse_summary(r.err)
        if r.rc not in (0, 1) or "Datetime Now" not in prog:
            ctx.violation("C14|documented-form-rejected|a=%s|b=%s" % (ca, cb), "rc=%s stderr=%r" % (r.rc, r.err[-300:]), info=info)
            continue
        now = c19.parse_dt_utc(prog.get("Datetime Now", ""))
        fa = c19.parse_dt_utc(prog.get("Datetime filter -a", ""))
        fb = c19.parse_dt_utc(prog.get("Datetime filter -b", ""))
        xa = ea if ea is not None else (None if rel_a is None else (now + rel_a) * gen.NS)
        xb = eb if eb is not None else (None if rel_b is None else (now + rel_b) * gen.NS)
        # second-resolution agreement with the summary
        for nm, got, want, cl in (("a", fa, xa, ca), ("b", fb, xb, cb)):
            if (want is None) != (got is None) or (want is not None and got != want // gen.NS):
                ctx.violation("C14|resolved-bound-differs|%s|%s" % (nm, cl.split(":")[0] if not cl.startswith("abs") else cl),
                              "-%s resolved to %s, documented value %s (tz %s)" % (nm, got, None if want is None else want // gen.NS, gen.off_str(tz_min)), info=info)
        # microsecond-resolution agreement through the probe log (absolute and @ forms only)
        if rel_a is None and rel_b is None:
            want_idx = [i for i, t in enumerate(inst) if (xa is None or t >= xa) and (xb is None or t <= xb)]
            got_idx = [int(x) for x in re.findall(rb" P(\d+)P", r.out)]
            if got_idx != want_idx:
                which = "a" if (xa is not None and any((inst[i] >= xa) != (i in got_idx) for i in range(len(inst)))) else "b"
                cl = ca if which == "a" else cb
                ctx.violation("C14|probe-log-selection-differs|%s|%s" % (which, cl.split(":")[0] if not cl.startswith("abs") else cl),
                              "printed probe messages %s, documented bounds select %s (bounds %s .. %s)" % (got_idx, want_idx, xa, xb),
                              files={"probe.log": open(path, "rb").read(), "stdout": r.out}, info=info)
            elif len(ctx.samples) < 5 and (ca.startswith("@") or cb.startswith("@") or "frac6" in ca):
                ctx.sample({"argv": argv, "resolved_a_ns": xa, "resolved_b_ns": xb, "probe_messages_printed": got_idx, "of": len(inst)})
