"""C02 - every message of a text log is printed exactly once, byte for byte.

Binary-level oracle: stdout == file bytes from the first timestamped line to EOF
(+ supplied final newline), for boundary-directed generated logs at many block
sizes. In-process oracle (harness `s4verif lines|syslines`): LineReader /
SyslineReader answers for every offset and every block size down to 1 against a
reference splitter, in forward, backward and random query orders.
"""
import os
import re

from vlib import cases, core, gen

LEVEL = "exploration"

BLOCKSZS_QUICK = [64, 65, 127, 128, 255, 1000, 4096, 65536]
BLOCKSZS_THOROUGH = [64, 65, 66, 79, 127, 128, 129, 255, 256, 1000, 4095, 4096, 4097, 8095, 8096, 8192, 65535, 65536, 65537, 1 << 20]


def make_case(ctx, rng, cid, B):
    d = ctx.casedir("case%05d" % cid)
    kind = rng.choice(["aligned"] * 6 + ["crossing", "tiny", "nonl"])
    n = rng.choice([1, 2, 3, 5, 9, 20, 40]) if B <= 4096 else rng.choice([3, 5, 9, 20])
    tn = rng.random() < 0.75
    pre, msgs = cases.aligned_log(rng, B, n, first_inside=(kind != "crossing"),
                                  long_lines=(B <= 8192), preamble=(rng.random() < 0.2))
    if kind == "tiny":
        msgs = msgs[:1]
    if kind == "nonl":
        tn = False
    data = pre + gen.log_bytes(msgs, tn)
    path = gen.write(os.path.join(d, "t.log"), data)
    body = gen.log_bytes(msgs, tn)
    exp = body if body.endswith(b"\n") or not body else body + b"\n"
    return d, path, pre, msgs, tn, exp, kind


def alignment_classes(pre, msgs, B):
    """which boundary alignments this file exercises (evidence)."""
    out = set()
    pos = len(pre)
    for m in msgs:
        for ln in m.data.split(b"\n")[:-1]:
            end = pos + len(ln) + 1
            r = end % B
            if r == 0:
                out.add("line-end-at-kB")
            elif r == B - 1:
                out.add("line-end-at-kB-1")
            elif r == 1:
                out.add("line-end-at-kB+1")
            if len(ln) + 1 > B:
                out.add("line-longer-than-block")
            if len(ln) + 1 > 2 * B:
                out.add("line-longer-than-2-blocks")
            pos = end
        if len(m.data) > B:
            out.add("message-spans-blocks")
    tot = pos
    if tot % B == 0:
        out.add("filesz-multiple-of-B")
    if tot < B:
        out.add("filesz-below-B")
    return out


def job(args):
    s4, path, bszs = args
    res = []
    for b in bszs:
        r = core.run([s4, "--color", "never", "-t=+00:00", "--blocksz", str(b), path], core.base_env(), timeout=120)
        res.append((b, r))
    return res


def inproc_lines_job(args):
    h, path, lo, hi, seed = args
    return core.run([h, "lines", path, str(lo), str(hi), str(seed)], core.base_env(), timeout=600)


def inproc_syslines_job(args):
    h, path, heads, lo, hi, seed = args
    return core.run([h, "syslines", path, heads, str(lo), str(hi), str(seed), "0"], core.base_env(), timeout=600)


def run_inprocess(ctx, rng):
    """LineReader / SyslineReader against a reference splitter for every block size from 1."""
    import json
    h = core.build_harness()
    d = ctx.casedir("inproc")
    jobs, meta = [], []
    alphabet = b"a\n\r\x00\xff"
    nfiles = ctx.pick(300, 6000)
    for i in range(nfiles):
        n = rng.choice([0, 1, 2, 3, 5, 8, 13, 24, 40])
        if rng.random() < 0.5:
            data = bytes(rng.choice(alphabet) for _ in range(n))
        else:
            data = bytes(rng.choice(b"a\n\n\n") for _ in range(n))
        path = gen.write(os.path.join(d, "l%05d.txt" % i), data)
        jobs.append((h, path, 1, len(data) + 2, ctx.seed + i))
        meta.append(("lines", data))
    res = core.pmap(inproc_lines_job, jobs)
    for (kind, data), r in zip(meta, res):
        if r.timed_out:
            ctx.inconc("watchdog")
            continue
        try:
            st = json.loads(r.out.decode().splitlines()[0])
        except Exception:
            ctx.violation("C02|inprocess|lines|crash", "harness died: rc=%s stderr=%r" % (r.rc, r.err[-300:]), files={"input": data})
            continue
        ctx.evaluated(st["pairs"], ("lines", data))
        ctx.count("in-process LineReader (file, blocksz) pairs", st["pairs"])
        ctx.count("in-process LineReader find_line queries", st["queries"])
        if st["mismatches"]:
            first = [l for l in r.out.decode("utf-8", "replace").splitlines() if l.startswith("MISMATCH")][:3]
            ctx.violation("C02|inprocess|find_line-differs-from-reference", "; ".join(first), files={"input": data, "harness.out": r.out},
                          info={"argv": r.argv})
    # syslines
    jobs, meta = [], []
    nfiles = ctx.pick(120, 2500)
    for i in range(nfiles):
        B = rng.choice([8, 16, 31, 32, 33, 64])
        pre, msgs = cases.aligned_log(rng, B, rng.choice([1, 2, 3, 5, 8]), notation=rng.choice(["iso_space", "compact", "iso_t_us_off"]),
                                      long_lines=False, preamble=(rng.random() < 0.25), crlf=0.15)
        for m in msgs:
            if len(m.data) > 300:
                m.data = m.data[:200].replace(b"\n", b"x") + b"\n"
        tn = rng.random() < 0.7
        data = pre + gen.log_bytes(msgs, tn)
        path = gen.write(os.path.join(d, "s%05d.log" % i), data)
        offs, p = [], len(pre)
        for m in msgs:
            offs.append(p)
            p += len(m.data)
        heads = gen.write(os.path.join(d, "s%05d.heads" % i), ("\n".join(map(str, offs)) + "\n").encode())
        hi = min(len(data) + 2, ctx.pick(140, 400))
        jobs.append((h, path, heads, 1, hi, ctx.seed + i))
        meta.append(data)
    res = core.pmap(inproc_syslines_job, jobs)
    for data, r in zip(meta, res):
        if r.timed_out:
            ctx.inconc("watchdog")
            continue
        try:
            st = json.loads(r.out.decode().splitlines()[0])
        except Exception:
            ctx.violation("C02|inprocess|syslines|crash", "harness died: rc=%s stderr=%r" % (r.rc, r.err[-300:]), files={"input": data})
            continue
        ctx.evaluated(st["pairs"], ("syslines", data))
        ctx.count("in-process SyslineReader (file, blocksz) pairs", st["pairs"])
        ctx.count("in-process SyslineReader find_sysline queries", st["queries"])
        if st["mismatches"]:
            first = [l for l in r.out.decode("utf-8", "replace").splitlines() if l.startswith("MISMATCH")][:3]
            ctx.violation("C02|inprocess|find_sysline-differs-from-reference", "; ".join(first), files={"input": data, "harness.out": r.out},
                          info={"argv": r.argv})


def run_miri(ctx, rng):
    """Block reading + line assembly (no regex) interpreted by Miri: LineReader over tiny files at every block size; Miri
    checks every slice / pointer operation on the way, the harness compares each line with the reference splitter."""
    import subprocess
    argv, env, cwd = core.miri_cmd()
    d = ctx.casedir("miri")
    jobs = []
    for i in range(ctx.pick(16, 120)):
        n = rng.choice([1, 2, 5, 9, 17, 33])
        data = bytes(rng.choice(b"ab\n\n\r\x00\xff") for _ in range(n))
        path = gen.write(os.path.join(d, "m%04d.txt" % i), data)
        jobs.append((path, n))

    def one(j):
        path, n = j
        return subprocess.run(argv + ["lines", path, "1", str(n + 1)], cwd=cwd, env=env, stdout=subprocess.PIPE, stderr=subprocess.PIPE, timeout=1800)
    for (path, n), p in zip(jobs, core.pmap(one, jobs)):
        out = p.stdout.decode("utf-8", "replace").strip()
        err = p.stderr.decode("utf-8", "replace")
        data = open(path, "rb").read()
        if p.returncode == 0 and out.startswith("lines "):
            q = int(out.split("queries ")[1].split()[0])
            ctx.evaluated(n + 1, ("miri-lines", data))
            ctx.count("LineReader queries interpreted under Miri", q)
            continue
        if "Undefined Behavior" in err:
            msg = err.split("Undefined Behavior: ")[1].splitlines()[0]
            ctx.violation("C02|miri|%s" % re.sub(r"alloc\d+|0x[0-9a-f]+|\d+", "N", msg)[:100], "Miri: %s" % msg[:200], files={"input": data, "miri.stderr": err[-5000:].encode()})
        elif "mismatches" in out:
            ctx.violation("C02|miri|find_line-differs-from-reference", out[:200], files={"input": data})
        else:
            ctx.inconc("miri process failed without a report (rc %s)" % p.returncode)


def run(ctx):
    s4 = core.build_s4()
    rng = ctx.rng
    run_inprocess(ctx, rng)
    run_miri(ctx, rng)
    bszs = ctx.pick(BLOCKSZS_QUICK, BLOCKSZS_THOROUGH)
    ncases = ctx.pick(700, 12000)
    ctx.rule = ("boundary-directed text logs (targets k*B-1/k*B/k*B+1 for line ends and message starts, lines of B-1/B/B+1/2B+1/3B+1, "
                "CRLF, NUL, non-UTF-8, truncated UTF-8, preambles, no final newline) each printed at the block size it was built "
                "for, at the default and at one random other size; distinct = (block size, alignment-class set, kind)")
    ctx.assumptions = ["continuation lines contain no ASCII digits so they cannot parse as timestamps"]
    jobs, meta = [], []
    for cid in range(ncases):
        B = rng.choice(bszs)
        d, path, pre, msgs, tn, exp, kind = make_case(ctx, rng, cid, B)
        use = sorted({B, 65536, rng.choice(bszs)})
        jobs.append((s4, path, use))
        meta.append((d, pre, msgs, tn, exp, kind, B))
    for (d, pre, msgs, tn, exp, kind, B), results in zip(meta, core.pmap(job, jobs)):
        for b, r in results:
            if r.timed_out:
                ctx.inconc("watchdog")
                continue
            al = alignment_classes(pre, msgs, b)
            ctx.evaluated(1, (b, tuple(sorted(al)), kind))
            for a in al:
                ctx.count("align:" + a)
            ctx.count("blocksz:%d" % b)
            if r.rc not in (0, 1):
                ctx.violation("C02|exit|rc=%s" % r.rc, "exit status %s: %r" % (r.rc, r.err[-300:]), src_dir=d,
                              info={"argv": r.argv, "env": r.env})
                continue
            if r.out == exp:
                if len(ctx.samples) < 4 and len(al) >= 3:
                    ctx.sample({"blocksz": b, "alignment": sorted(al), "messages": len(msgs), "file_bytes": len(pre) + sum(len(m.data) for m in msgs),
                                "head": (pre + msgs[0].data)[:120]})
                continue
            bz = cases.blockzero_class(pre, msgs, b, tn)
            if bz and r.out == b"":
                sig = "C02|blockzero|%s|stdout-empty" % bz
                what = "file rejected by block-zero analysis at --blocksz %d: nothing printed, exit %s" % (b, r.rc)
            else:
                got, want = cases.tokens_of(r.out), cases.tokens_of(exp)
                if got == want:
                    sig = "C02|bytes-differ-same-messages"
                elif r.out == b"":
                    sig = "C02|stdout-empty"
                elif len(got) < len(want) and all(g in want for g in got):
                    sig = "C02|messages-missing"
                elif len(got) > len(want):
                    sig = "C02|messages-repeated"
                else:
                    sig = "C02|messages-differ"
                what = "--blocksz %d: %d/%d message tokens, %d/%d bytes" % (b, len(got), len(want), len(r.out), len(exp))
            ctx.violation(sig, what, src_dir=d, files={"expected.stdout": exp, "observed.stdout": r.out},
                          info={"argv": r.argv, "env": r.env, "stderr": r.err[-500:], "kind": kind})
