"""C15 - directories and stdin path lists expand to the same run as explicit files.

Oracle: differential triple plus reference model. For a random tree:
  stdout(s4 DIR) == stdout(s4 <files in sorted walk order, known non-log names
  left out>) == stdout(paths fed on stdin via '-', any split between argv and
  stdin), and all equal the reference merge of the generator's messages in that
order (ties across files expose the order). An explicitly named file with a
non-log suffix must be attempted.
"sorted path order" is taken as the order of paths compared component by
component (what `std::path::Path`'s ordering and a sorted depth-first walk give:
names sorted inside each directory, a directory's files at the directory's
position). It differs from the string order of the full paths where a directory
name is continued by a sibling's name with a character below '/' (`app/` beside
`app.log`, `app-error.log`); such shapes are generated on purpose, with ties.
"""
import os

from vlib import cases, core, gen

LEVEL = "exploration"

NAMES = ["a.log", "b.log", "B.log", "app.log.1", "messages", "syslog", "x y.log", "ñ.log", "日本.log", ".hidden.log", "z.txt", "k.log.gz", "m.log.xz",
         "arch.tar", "noext", "10.log", "2.log", "-dash.log", "image.png", "prog.exe", "lib.so", "page.html", "data.zip",
         # names that continue a sibling directory's name with a character that sorts before '/'
         "d1.log", "d1-old.log", "d1 2.log", "0.log", "Zdir,1.log", "app.log", "app-error.log",
         # names that end in white space, beside a sibling without it: a path read from stdin is the line as it stands (round-6 change C15g)
         "app.log ", "trail.log ", "tab.log\t", " lead.log"]
NONLOG = (".png", ".exe", ".so", ".html", ".zip")
DIRS = ["d1", "sub dir", "Zdir", "a.d", "日本", "logs.old", "0", "app", "d1"]


def build_tree(ctx, rng, cid):
    root = ctx.casedir("case%05d" % cid)
    top = os.path.join(root, "tree")
    os.makedirs(top)
    t0 = gen.instant(2024, 3, 1, 12, 0, 0)
    files = {}   # relpath -> Source (or None for non-log junk)
    sid = [0]

    def mk_source(ties):
        s = cases.make_source(rng, sid[0], rng.choice([1, 2, 3, 6]), t0 if ties else t0 + sid[0] * 1000 * gen.NS, 0,
                              mode="ties" if ties else "dense", notation="iso_space", chrono=True, ncont_max=1, cont_class="ascii", trailing_newline=True)
        sid[0] += 1
        return s

    def fill(dpath, depth, ties):
        names = rng.sample(NAMES, rng.randint(1, 6))
        for nm in names:
            p = os.path.join(dpath, nm)
            rel = os.path.relpath(p, top)
            if nm.endswith(NONLOG):
                s = mk_source(ties)       # content is a valid log; only the name says "not a log"
                gen.write(p, s.plain_bytes())
                files[rel] = ("nonlog", s)
            elif nm.endswith(".gz"):
                s = mk_source(ties)
                gen.write(p, gen.gz_bytes(s.plain_bytes()))
                files[rel] = ("log", s)
            elif nm.endswith(".xz"):
                s = mk_source(ties)
                gen.write(p, gen.xz_bytes(s.plain_bytes()))
                files[rel] = ("log", s)
            elif nm.endswith(".tar"):
                s1, s2, s3 = mk_source(ties), mk_source(ties), mk_source(ties)
                # naming the archive explicitly processes every member, so walking onto it must too (also a member whose
                # name has a non-log suffix)
                gen.write(p, gen.tar_bytes([("in/one.log", s1.plain_bytes(), 1_600_000_000), ("in/two.log", s2.plain_bytes(), 1_600_000_000),
                                            ("in/tool.sh", s3.plain_bytes(), 1_600_000_000)]))
                files[rel] = ("tar", [s1, s2, s3])
            else:
                s = mk_source(ties)
                gen.write(p, s.plain_bytes())
                files[rel] = ("log", s)
        if depth < 3:
            for dn in rng.sample(DIRS, rng.randint(0, 2)):
                dp = os.path.join(dpath, dn)
                if not os.path.exists(dp):
                    os.makedirs(dp)
                    fill(dp, depth + 1, ties)
    ties = rng.random() < 0.7
    fill(top, 0, ties)
    # symbolic links: to a file (same kind of name) and to a directory that lives outside the tree
    logs = [rel for rel, v in files.items() if v[0] == "log" and rel.endswith(".log")]
    if logs and rng.random() < 0.5:
        tgt = rng.choice(logs)
        ln = os.path.join(top, "link-%d.log" % cid)
        os.symlink(os.path.join(top, tgt), ln)
        files[os.path.relpath(ln, top)] = files[tgt]
    # a link whose own name says something else than its target's (`latest -> k.log.gz`, `cur.gz -> a.log`): named explicitly
    # it is read as its target is, so it must be when met in a walk
    anylog = [rel for rel, v in files.items() if v[0] == "log" and not os.path.islink(os.path.join(top, rel))]
    if anylog and rng.random() < 0.5:
        tgt = rng.choice(anylog)
        ln = os.path.join(top, rng.choice(["latest", "current.log", "cur.gz", "zz-last.xz", "newest.1"]))
        if not os.path.lexists(ln):
            os.symlink(os.path.join(top, tgt) if rng.random() < 0.5 else tgt, ln)
            files[os.path.relpath(ln, top)] = files[tgt]
    if rng.random() < 0.4:
        out = os.path.join(root, "outside")
        os.makedirs(out)
        s = mk_source(ties)
        gen.write(os.path.join(out, "o.log"), s.plain_bytes())
        os.symlink(out, os.path.join(top, "linkdir"))
        files[os.path.join("linkdir", "o.log")] = ("log", s)
        if rng.random() < 0.5:
            # a loop: a link back to the tree's top inside the linked directory; the walk must end
            os.symlink(top, os.path.join(out, "loop"))
    return root, top, files, ties


def walk_sorted(top):
    """sorted depth-first walk: entries of each directory by name; directories descended in place"""
    out = []

    def rec(d, seen):
        for nm in sorted(os.listdir(d), key=lambda s: s.encode("utf-8", "surrogateescape")):
            p = os.path.join(d, nm)
            if os.path.isdir(p):
                real = os.path.realpath(p)
                if real in seen:
                    continue      # a link back to an ancestor
                rec(p, seen | {real})
            else:
                out.append(p)
    rec(top, {os.path.realpath(top)})
    return out


def job(args):
    s4, cwd, variants = args
    res = []
    for name, argv, stdin in variants:
        r = core.run([s4, "--color", "never", "-t=+00:00"] + argv, core.base_env(), stdin=stdin, cwd=cwd, timeout=120)
        res.append((name, r))
    return res


def run(ctx):
    s4 = core.build_s4()
    rng = ctx.rng
    ncases = ctx.pick(160, 2500)
    ctx.rule = ("random trees (depth <= 4, names with spaces / non-ASCII / leading dot or dash, numeric names, .gz .xz .tar members, non-log suffixes) "
                "with cross-file timestamp ties; variants: directory, explicit sorted list, all paths on stdin, 3 random argv/stdin splits, directory "
                "given with trailing slash / relative; distinct = (number of files, depth, has tar, has non-log, ties) classes per variant")
    jobs, meta = [], []
    for cid in range(ncases):
        root, top, files, ties = build_tree(ctx, rng, cid)
        order_dfs = walk_sorted(top)
        order_str = sorted(order_dfs, key=lambda s: s.encode("utf-8", "surrogateescape"))
        if order_dfs != order_str:
            ctx.count("trees where component-wise path order and string order of the full paths differ")
        if False:
            ctx.count("trees rebuilt without ties because walk order and string order differ")
            # rebuild without ties: same shape is not needed, any tree will do
            for attempt in range(5):
                root, top, files, ties = build_tree(ctx, rng, cid * 10 + attempt + 100000)
                order_dfs = walk_sorted(top)
                if order_dfs == sorted(order_dfs, key=lambda s: s.encode("utf-8", "surrogateescape")) or not ties:
                    break
            else:
                continue
        explicit = [p for p in order_dfs if files[os.path.relpath(p, top)][0] != "nonlog"]
        # reference model
        srcs = []
        for p in explicit:
            kind, s = files[os.path.relpath(p, top)]
            srcs.extend(s if kind == "tar" else [s])
        exp = cases.expected_stdout(cases.merge_model(srcs, srcs))
        variants = [("dir", [top], None), ("dir-trailing-slash", [top + "/"], None), ("dir-relative", ["tree"], None),
                    ("explicit", explicit, None), ("stdin-all", ["-"], ("\n".join(explicit) + "\n").encode())]
        for k in range(3):
            if len(explicit) >= 2:
                cut = rng.randint(1, len(explicit) - 1)
                where = rng.choice(["head-argv", "tail-argv"])
                if where == "head-argv":
                    variants.append(("split-%d-argv-then-stdin" % cut, explicit[:cut] + ["-"], ("\n".join(explicit[cut:]) + "\n").encode()))
                else:
                    variants.append(("split-%d-stdin-then-argv" % cut, ["-"] + explicit[cut:], ("\n".join(explicit[:cut]) + "\n").encode()))
        # an explicitly named non-log file is always attempted
        nonlogs = [p for p in order_dfs if files[os.path.relpath(p, top)][0] == "nonlog"]
        if nonlogs:
            p = rng.choice(nonlogs)
            variants.append(("explicit-nonlog", [p], None))
        jobs.append((s4, root, variants))
        meta.append((root, top, files, exp, ties, nonlogs, len(explicit)))
    for (root, top, files, exp, ties, nonlogs, nexp), results in zip(meta, core.pmap(job, jobs)):
        depth = max(os.path.relpath(p, top).count("/") for p in walk_sorted(top)) if files else 0
        has_tar = any(v[0] == "tar" for v in files.values())
        for name, r in results:
            if r.timed_out:
                ctx.inconc("watchdog")
                continue
            vname = name.split("-")[0] if name.startswith("split") else name
            ctx.evaluated(1, (vname, min(nexp, 8), depth, has_tar, bool(nonlogs), ties))
            ctx.count("variant:%s" % vname)
            info = {"argv": r.argv, "env": r.env, "cwd": root, "stderr": r.err[-400:], "stdin": name}
            if name == "explicit-nonlog":
                p = r.argv[-1]
                s = files[os.path.relpath(p, top)][1]
                want = cases.expected_stdout(cases.merge_model([s], [s]))
                if r.out != want:
                    ctx.violation("C15|explicit-file-with-non-log-suffix-not-attempted", "explicit %r printed %d bytes, its content holds %d" % (
                        os.path.basename(p), len(r.out), len(want)), src_dir=root, info=info)
                continue
            if r.out == exp:
                if len(ctx.samples) < 4 and ties and nexp >= 3 and name.startswith("split"):
                    ctx.sample({"variant": name, "files": nexp, "argv_tail": [os.path.relpath(a, root) if a != "-" else a for a in r.argv[4:]][:8], "stdout_bytes": len(r.out)})
                continue
            got, want = cases.tokens_of(r.out), cases.tokens_of(exp)
            if sorted(got) == sorted(want):
                how = "order-differs"
            elif set(got) < set(want):
                how = "files-missing"
            elif set(got) > set(want):
                how = "extra-files"
            else:
                how = "differs"
            has_loop = os.path.islink(os.path.join(root, "outside", "loop"))
            if has_loop and vname == "dir-relative" and set(got) == set(want) and len(got) > len(want):
                how = "symlink-loop-walked-repeatedly"
            ctx.violation("C15|%s|%s" % (vname, how), "variant %s: %d tokens, model %d; stderr %r" % (name, len(got), len(want), r.err[-200:]), src_dir=root,
                          files={"expected.stdout": exp, "observed.stdout": r.out}, info=info)
