"""C16 - the reader for a file is chosen from its name alone, for every name.

Oracle: an independent model of the naming grammar stated in the property
(components read right to left: numeric / unrecognised skipped, one compression
suffix selects the container, first type word selects the reader, case and junk
characters ignored, default text), compared in-process with
`path_to_filetype` (harness `s4verif classify`) over the exhaustive grammar
product; plus arbitrary strings (dots only, empty stem, very long, non-UTF-8)
where termination without panic within a step budget is required. An end-to-end
sample checks that s4 really reads a renamed utmp/text file with the reader the
name implies.
"""
import itertools
import os

from vlib import core, fsgen, gen

LEVEL = "exploration"

TYPE_WORDS = {
    "utmp": ("FixedStruct", "Utmp"), "wtmp": ("FixedStruct", "Utmp"), "btmp": ("FixedStruct", "Utmp"),
    "utmpx": ("FixedStruct", "Utmpx"), "wtmpx": ("FixedStruct", "Utmpx"), "btmpx": ("FixedStruct", "Utmpx"),
    "lastlog": ("FixedStruct", "Lastlog"), "lastlogx": ("FixedStruct", "Lastlogx"),
    "acct": ("FixedStruct", "Acct"), "pacct": ("FixedStruct", "AcctV3"),
    "journal": ("Journal", None), "evtx": ("Evtx", None),
    "log": ("Text", None), "txt": ("Text", None), "text": ("Text", None),
}
# type words that only count as a component after a dot (an extension), not as the whole stem
EXT_ONLY = {"evtx", "txt", "text"}
COMPRESSION = {"gz": "Gz", "gzip": "Gz", "bz2": "Bz2", "xz": "Xz", "xzip": "Xz", "lz4": "Lz4"}
NONLOG = ["png", "jpg", "exe", "zip", "so", "py", "html", "dll", "mp3", "7z"]
JUNK_LEAD = "~-,?;."
JUNK_TRAIL = "~-,?;"   # '.' is listed by the property too; it is exercised as its own class below


def is_num(c):
    try:
        v = int(c)
    except ValueError:
        return False
    return -2 ** 31 <= v < 2 ** 31 and c.strip() == c and "_" not in c


def model(name, unparseable_are_text=True):
    """(kind, fixedstruct subtype or None, archive) for a name of the documented grammar"""
    s = name.rstrip(JUNK_TRAIL)
    s = s.lstrip(JUNK_LEAD)
    fallback = ("Text", None) if unparseable_are_text else ("Unparsable", None)
    arch = "Normal"
    if not s:
        return fallback + (arch,)
    comps = s.split(".")
    while len(comps) > 1:
        c = comps[-1].lower()
        if is_num(c):
            comps.pop()
            continue
        if c in COMPRESSION:
            arch = COMPRESSION[c]
            comps.pop()
            continue
        if c == "tar":
            return ("ArchiveTar", None, arch)
        if c in TYPE_WORDS:
            k = TYPE_WORDS[c]
            return (k[0], k[1], arch)
        if c in NONLOG:
            return fallback + ((arch,) if fallback[0] == "Text" else ("-",))
        comps.pop()
    stem = comps[0].lower()
    if stem in TYPE_WORDS and stem not in EXT_ONLY:
        k = TYPE_WORDS[stem]
        return (k[0], k[1], arch)
    return ("Text", None, arch)


def parse_result(s):
    """harness debug string -> (kind, subtype, archive)"""
    if s.startswith("Archive(Tar"):
        return ("ArchiveTar", None, s.split(",")[1].strip(" )"))
    if s == "Filetype(Unparsable)":
        return ("Unparsable", None, "-")
    inner = s[len("Filetype("):-1]
    kind = inner.split(" ")[0]
    arch = inner.split("archival_type: ")[1].split(",")[0].split(" ")[0]
    sub = None
    if "fixedstruct_type: " in inner:
        sub = inner.split("fixedstruct_type: ")[1].split(" ")[0]
    return (kind, sub, arch)


def case_variants(w):
    out = {w, w.upper(), w.title()}
    out.add("".join(ch.upper() if i % 2 else ch for i, ch in enumerate(w)))
    return sorted(out)


def grammar(ctx, rng):
    """names of the documented grammar (exhaustive product, sampled axes where noted)"""
    trailing = ["1", "20230101", "007", "old", "bak", "orig", "2x", "prev"]
    prefixes = ["", "~", "-", ".", ",;", "?"]
    suffixes = ["", "~", "-", ",", "?", ";", "~~", ",-"]
    stems = ["", "foo.", "host-01_", "a.b.", "x_"]
    comp = [""] + sorted(COMPRESSION)
    names = []
    for w in sorted(TYPE_WORDS):
        for wv in case_variants(w):
            for stem in stems:
                if w in EXT_ONLY and not stem.endswith("."):
                    continue
                for ntr in range(0, 4):
                    trs = list(itertools.product(trailing, repeat=ntr))
                    if len(trs) > 40:
                        trs = rng.sample(trs, min(len(trs), 40 if ctx.quick else 120))
                    for tr in trs:
                        for c in comp:
                            parts = list(tr)
                            if c:
                                cv = rng.choice([c, c.upper()])
                                parts.insert(rng.randint(0, len(parts)), cv)
                            for pf in rng.sample(prefixes, 2 if ctx.quick else 3):
                                for sf in rng.sample(suffixes, 2 if ctx.quick else 3):
                                    if pf and stem and not stem[0].isalnum():
                                        continue
                                    names.append(pf + stem + wv + "".join("." + p for p in parts) + sf)
    return names


def classify(h, names, flag):
    """names: list of bytes -> list of (status, micros, text)"""
    inp = b"".join(n.hex().encode() + b"\n" for n in names)
    r = core.run([h, "classify", flag], core.base_env(), stdin=inp, timeout=900)
    out = []
    for ln in r.out.decode("utf-8", "replace").splitlines():
        p = ln.split("\t")
        out.append((p[0], int(p[1]), p[2] if len(p) > 2 else ""))
    return r, out


def tar_member_job(args):
    s4, path = args
    r = core.run([s4, "--color", "never", "-t=+00:00", "-s", path], core.base_env(tmpdir=os.path.dirname(path)), timeout=120)
    ft = [ln.split(b":", 1)[1].strip() for ln in r.err.splitlines() if ln.strip().startswith(b"filetype ")]
    return r, ft


def tar_members(ctx, s4, rng):
    """A member of a .tar is classified from the member's own name alone: whatever the archive is called and wherever the
    member sits in it, the reader (the summary's 'filetype' line) and the output must be those of a plain file of that
    name."""
    from vlib import fsgen
    d = ctx.casedir("tarmembers")
    lx = fsgen.LAYOUTS["Fs_Linux_x86_Utmpx"]
    fs = {"wtmp": lx, "utmp": lx, "btmp": lx, "wtmp.1": lx, "host.wtmp": lx, "utmpx": fsgen.LAYOUTS["Fs_Freebsd_x8664_Utmpx"],
          "lastlog": fsgen.LAYOUTS["Fs_Linux_x86_Lastlog"], "acct": fsgen.LAYOUTS["Fs_Linux_x86_Acct"], "pacct": fsgen.LAYOUTS["Fs_Linux_x86_Acct_v3"],
          "lastlogx": fsgen.LAYOUTS["Fs_Netbsd_x8632_Lastlogx"]}
    text = b"".join(b"2024-03-01 12:00:%02d S0M%d text line\n" % (i, i) for i in range(5))
    members = {}
    for nm, lay in fs.items():
        members[nm] = fsgen.build_file(lay, [fsgen.make_record(lay, i, 1_690_000_000 + 10 * i, usec=i)[0] for i in range(3)])
    for nm in ("messages", "syslog", "a.log", "kern.log.1", "noext", "wtmp.txt"):
        members[nm] = text
    archives = ["a.tar", "sample.tar", "wtmp.tar", "messages.tar", "backup.1.tar", "logs.tar", "utmp.tar", "x.log.tar", "lastlog.tar", "acct.2.tar"]
    jobs, meta = [], []
    for nm, data in members.items():
        pd = os.path.join(d, "plain-" + nm)
        os.makedirs(pd, exist_ok=True)
        jobs.append((s4, gen.write(os.path.join(pd, nm), data)))
        meta.append((nm, None, None))
        for an in (archives if not ctx.quick else rng.sample(archives, 5)):
            for place in ("", "d/", "./", "var/log/"):
                td = os.path.join(d, "t-%s-%s-%s" % (nm, an, place.replace("/", "_").replace(".", "dot")))
                os.makedirs(td, exist_ok=True)
                jobs.append((s4, gen.write(os.path.join(td, an), gen.tar_bytes([(place + nm, data, 1_600_000_000)]))))
                meta.append((nm, an, place))
    ref = {}
    res = core.pmap(tar_member_job, jobs)
    for (nm, an, place), (r, ft) in zip(meta, res):
        if an is None:
            ref[nm] = (r.out, ft)
    for (nm, an, place), (r, ft) in zip(meta, res):
        if an is None:
            continue
        ctx.evaluated(1, ("tar-member", nm, an, place))
        ctx.count("tar members compared with the plain file of the same name")
        rout, rft = ref[nm]
        ftn = [x.replace(b" (TAR)", b"") for x in ft]
        if ftn != rft or r.out != rout:
            ctx.violation("C16|tar-member-read-differently-from-plain-file|%s" % ("top-level" if place in ("", "./") else "nested"),
                          "member %r of %r: filetype %s, %d bytes printed; the plain file %r: filetype %s, %d bytes" % (
                              place + nm, an, [x.decode() for x in ft], len(r.out), nm, [x.decode() for x in rft], len(rout)),
                          info={"argv": r.argv, "member": place + nm, "archive": an})


def run(ctx):
    h = core.build_harness()
    s4 = core.build_s4()
    rng = ctx.rng
    tar_members(ctx, s4, rng)
    names = grammar(ctx, rng)
    # non-log words and tar in the grammar too
    for w in NONLOG + ["tar"]:
        for wv in (w, w.upper()):
            for tail in ("", ".1", ".old", ".gz"):
                names.append("archive." + wv + tail)
                names.append("wtmp." + wv + tail)
    names = sorted(set(names))
    ctx.rule = ("exhaustive product type word (15) x 4 letter-case variants x stems x 0..3 trailing numeric/unknown components (sampled above 40 "
                "tuples) x optional compression suffix at any position x junk prefix x junk suffix, compared with an independent right-to-left "
                "model; plus arbitrary strings for termination/no-panic; distinct = distinct names")
    bnames = [n.encode() for n in names]
    nshards = 16
    shards = [bnames[i::nshards] for i in range(nshards)]
    for flag, upt in (("text", True), ("unparsable", False)):
        results = core.pmap(lambda sh: classify(h, sh, flag), shards)
        for sh, (r, out) in zip(shards, results):
            if r.timed_out or len(out) != len(sh):
                ctx.violation("C16|classifier-did-not-finish|grammar", "harness returned %d answers for %d names, rc=%s, timed_out=%s" % (len(out), len(sh), r.rc, r.timed_out),
                              files={"names.txt": b"\n".join(sh)}, info={"stderr": r.err[-500:]})
                continue
            for n, (st, us, txt) in zip(sh, out):
                name = n.decode()
                ctx.evaluated(1, name if upt else None)
                if st != "OK":
                    ctx.violation("C16|panic-or-failure|grammar", "classification of %r: %s" % (name, st), info={"name": name})
                    continue
                if us > 1_000_000:
                    ctx.violation("C16|slow|grammar", "classification of %r took %d us" % (name, us), info={"name": name})
                got = parse_result(txt)
                want = model(name, upt)
                if got != want:
                    kind = "archive-differs" if got[:2] == want[:2] else "reader-differs"
                    w = name.strip(JUNK_LEAD).split(".")
                    ctx.violation("C16|%s|want=%s/%s|got=%s/%s" % (kind, want[0], want[1], got[0], got[1]),
                                  "name %r classified %s, grammar says %s" % (name, got, want), info={"name": name, "unparseable_are_text": upt})
                elif len(ctx.samples) < 6 and rng.random() < 0.0005:
                    ctx.sample({"name": name, "classified": got})
    ctx.count("grammar names", len(names))
    # trailing '.' as junk (listed by the property)
    dotnames = [w + tail + "." for w in ("wtmp", "lastlog", "x.journal", "x.evtx", "acct") for tail in ("", ".1", ".gz")]
    r, out = classify(h, [n.encode() for n in dotnames], "text")
    for n, (st, us, txt) in zip(dotnames, out):
        ctx.evaluated(1, n)
        got, want = parse_result(txt) if st == "OK" else None, model(n.rstrip("."), True)
        if got != want:
            ctx.violation("C16|trailing-dot-not-treated-as-junk", "name %r classified %s, with the trailing '.' removed the grammar says %s" % (n, got, want), info={"name": n})
    # names with many components that are neither numeric nor recognised: the work must stay proportional to the length
    deep = []
    for comp in (b"x", b"bak", b"old", b"foo", b"a1", b"Xy"):
        for k in (12, 18, 22, 26, 30, 40, 60):
            for base in (b"a", b"syslog", b"wtmp", b"wtmp.gz", b"x.log.xz"):
                nm = base + (b"." + comp) * k
                if len(nm) <= 255:
                    deep.append(nm)
    deep.sort(key=len)
    r, out = core.run([h, "classify", "text"], core.base_env(), stdin=b"".join(n.hex().encode() + b"\n" for n in deep), timeout=ctx.pick(60, 120)), None
    lines = r.out.decode("utf-8", "replace").splitlines()
    ctx.count("names with 12..60 unrecognised components", len(deep))
    if r.timed_out or len(lines) != len(deep):
        stuck = deep[len(lines)] if len(lines) < len(deep) else b"?"
        ctx.violation("C16|classifier-did-not-finish|many-unrecognised-components", "classification stopped answering at %r (%d of %d names answered within the limit)" % (
            stuck[:60], len(lines), len(deep)), info={"name": stuck.decode("latin-1")})
    for n, ln in zip(deep, lines):
        ctx.evaluated(1, "deep:%d" % len(n))
        p_ = ln.split("\t")
        if p_[0] != "OK":
            ctx.violation("C16|panic-or-failure|many-unrecognised-components", "classification of %r: %s" % (n[:60], p_[0]), info={"name": n.decode("latin-1")})
        elif int(p_[1]) > 1_000_000:
            ctx.violation("C16|slow|many-unrecognised-components", "classification of %r took %s us" % (n[:60], p_[1]), info={"name": n.decode("latin-1")})
    # arbitrary strings: termination, no panic
    arb = [b".", b"..", b"...", b"." * 300, b"", b"~", b"~~~~", b".~.~.", b"a" * 4096, b"a." * 2000, b"." + b"1." * 1500 + b"log",
           b"\xff\xfe.log", b"wtmp.\xff", b"\xff.gz", b"log.\x00", b"x.gz.gz.gz.gz.gz.gz", b"1.2.3.4.5.6.7.8.9", b"-1", b"+1.log", b"x.9999999999999999999"]
    alphabet = b"abwtmplogz.~-,?;1279_XZ\xff\xc3\xa9 "
    for _ in range(ctx.pick(20000, 200000)):
        n = rng.choice([1, 2, 3, 5, 8, 13, 30, 200])
        arb.append(bytes(rng.choice(alphabet) for _ in range(n)).replace(b"/", b"_"))
    arb = [a for a in arb if b"\n" not in a]
    shards = [arb[i::nshards] for i in range(nshards)]
    results = core.pmap(lambda sh: classify(h, sh, "text"), shards)
    for sh, (r, out) in zip(shards, results):
        if r.timed_out or len(out) != len(sh):
            ctx.violation("C16|classifier-did-not-finish|arbitrary", "harness returned %d answers for %d names, rc=%s, timed_out=%s, stderr %r" % (
                len(out), len(sh), r.rc, r.timed_out, r.err[-300:]), files={"names.hex": b"\n".join(x.hex().encode() for x in sh)})
            continue
        for n, (st, us, txt) in zip(sh, out):
            ctx.evaluated(1, None)
            ctx.count("arbitrary names")
            if st != "OK":
                ctx.violation("C16|panic-or-failure|arbitrary", "classification of %r: %s" % (n, st), info={"name_hex": n.hex()})
            elif us > 1_000_000:
                ctx.violation("C16|slow|arbitrary", "classification of %r took %d us" % (n[:80], us), info={"name_hex": n.hex()})
    # end-to-end: the reader used is the one the name implies
    d = ctx.casedir("e2e")
    lay = fsgen.LAYOUTS["Fs_Linux_x86_Utmpx"]
    recs = [fsgen.make_record(lay, i, 1_690_000_000 + i, usec=i)[0] for i in range(5)]
    utmp_bytes = fsgen.build_file(lay, recs)
    text_bytes = b"".join(b"2024-01-01 00:00:%02d E2E%d line\n" % (i, i) for i in range(5))
    for nm, data, expect in (("wtmp.1", utmp_bytes, b"ut_type"), ("~WTMP.20230101.gz", gen.gz_bytes(utmp_bytes), b"ut_type"), ("host.wtmp.old.bz2", gen.bz2_bytes(utmp_bytes), b"ut_type"),
                             ("app.LOG.3", text_bytes, b"E2E4"), ("messages-", text_bytes, b"E2E4"), ("noext", text_bytes, b"E2E4"), ("app.log.2.xz", gen.xz_bytes(text_bytes), b"E2E4")):
        p = gen.write(os.path.join(d, nm), data)
        r = core.run([s4, "--color", "never", "-t=+00:00", p], core.base_env(tmpdir=d), timeout=60)
        ctx.evaluated(1, "e2e:" + nm)
        if expect not in r.out or r.out.count(b"\n") < 5:
            ctx.violation("C16|end-to-end|%s" % nm, "file named %r was not read by the reader its name implies: stdout %r stderr %r" % (nm, r.out[:120], r.err[:200]),
                          info={"argv": r.argv})
