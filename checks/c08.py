"""C08 - accounting-record files: every record once, in time order.

Oracle: reference model = stable sort by (tv_sec, tv_usec) of the non-null
records the generator wrote (independent python layout tables, vlib/fsgen.py).
Every printed line is parsed back into fields and compared with the values the
generator put into that record; so a missing / repeated / misordered record and a
line that shows another record's (or neighbouring) bytes are all refuted.
Also run under windows (-a/-b on record instants; the C03 part for this kind).
"""
import os

from vlib import core, fsgen, gen

LEVEL = "exploration"

TIME_MODES = ["increasing", "increasing", "shuffled", "reversed", "duplicates", "all-equal", "dup-sec-diff-usec", "blocks-out-of-order"]


def bound_str(ns):
    y, mo, d, h, mi, s, n, _ = gen.civil(ns, 0)
    return "%04d-%02d-%02dT%02d:%02d:%02d.%06d+00:00" % (y, mo, d, h, mi, s, n // 1000)


def make_case(ctx, rng, cid, window_prob=0.3):
    d = ctx.casedir("case%05d" % cid)
    lay = rng.choice(list(fsgen.LAYOUTS.values()))
    n = rng.choice([1, 2, 3, 8, 20, 60, 300]) if not ctx.quick else rng.choice([1, 2, 3, 8, 20, 60])
    mode = rng.choice(TIME_MODES)
    ambig = None
    if rng.random() < 0.06:
        # a record count that makes the file size a multiple of another layout's record size too (same file name family):
        # the size alone does not tell the layouts apart, the scoring has to
        import math
        others = [l for l in fsgen.LAYOUTS.values() if l.filename == lay.filename and l.size != lay.size and getattr(l, "selectable", True)]
        if others and getattr(lay, "selectable", True):
            o = rng.choice(others)
            step = o.size // math.gcd(o.size, lay.size)
            if step <= 400:
                n = step * rng.choice([1, 1, 2, 3] if step * 3 <= 400 else [1])
                ambig = o.name
    has_usec = lay.time_usec is not None
    t0 = 1_690_000_000 + rng.randint(0, 100000)
    times = []
    t = t0
    for i in range(n):
        if mode in ("increasing", "shuffled", "reversed", "blocks-out-of-order"):
            t += rng.choice([1, 1, 2, 60, 3600])
            times.append((t, rng.choice([0, 1, 999_999, 500_000]) if has_usec else 0))
        elif mode == "duplicates":
            t += rng.choice([0, 0, 1, 2])
            times.append((t, 0 if not has_usec else rng.choice([0, 0, 7])))
        elif mode == "all-equal":
            times.append((t0, 5 if has_usec else 0))
        else:  # dup-sec-diff-usec
            t += rng.choice([0, 0, 1])
            times.append((t, (i * 13 + 1) % 1_000_000 if has_usec else 0))
    if mode == "shuffled":
        rng.shuffle(times)
    elif mode == "reversed":
        times.reverse()
    elif mode == "blocks-out-of-order" and n >= 4:
        k = n // 2
        times = times[k:] + times[:k]
    full = rng.random() < 0.15
    nulls = rng.random() < 0.3 and ambig is None
    recs = []   # (record bytes, values or None)
    sparse = 0
    if ambig is None and rng.random() < (0.012 if lay.kind != "lastlog" else 0.08):
        # a sparse file: thousands of null slots before the first record (a uid-indexed lastlog on a host whose accounts
        # start at uid 10000+ looks like this)
        sparse = rng.choice([100, 1000, 5000, 8191, 8192, 8193, 20000, 70000])
        nul = fsgen.null_record(lay)
        recs.extend([(nul, None)] * sparse)
    for i, (sec, usec) in enumerate(times):
        if nulls and rng.random() < 0.3:
            recs.append((fsgen.null_record(lay), None))
        rec, vals = fsgen.make_record(lay, i, sec, usec=usec, full_width=full, rng=rng)
        if not full and rng.random() < 0.15:
            # bytes above 0x7f in a string field (a UTF-8 or Latin-1 user / host / command name)
            strf = [f.name for f in lay.fields if f.kind == "str" and f.size >= 8 and f.name in vals]
            if strf:
                fn_ = rng.choice(strf)
                nv = rng.choice(["jörg".encode(), "müller".encode(), b"caf\xe9", "日本".encode(), b"\xff\xfe", "ñ".encode() + b"1"])
                if len(nv) < lay.by_name[fn_].size:
                    vals = dict(vals, **{fn_: nv})
                    rec = fsgen.pack(lay, vals)
        if "ut_addr_v6" in vals and rng.random() < 0.5:
            # remote address patterns: IPv4 (words 1..3 zero), IPv6 with zero runs in every position (::1, fe80::1, 2001:db8::N, ...)
            w = [rng.choice([0, 0, 1, 0x0db80120, 0xfe800000, rng.getrandbits(32)]) for _ in range(4)]
            if rng.random() < 0.4:
                w = [rng.choice([0, 0x20010db8, 0xfe800000]), 0, 0, rng.choice([1, 2, 0x01000000, rng.getrandbits(32)])]
            import struct as _st
            vals = dict(vals, ut_addr_v6=_st.pack("<4I", *w))
            rec = fsgen.pack(lay, vals)
        recs.append((rec, vals))
    if nulls and rng.random() < 0.5:
        recs.append((fsgen.null_record(lay), None))
    data = fsgen.build_file(lay, [r for r, _ in recs])
    cont = rng.choice([None, None, None, None, "gz", "bz2", "xz", "lz4", "tar"])
    if cont is None:
        path = gen.write(os.path.join(d, lay.filename), data)
    elif cont == "tar":
        path = gen.write(os.path.join(d, "a.tar"), gen.tar_bytes([("var/log/" + lay.filename, data, 1_600_000_000)]))
    else:
        kw = {"split": rng.choice([65536, 1000]), "stored": True} if cont == "lz4" else {}
        path = gen.write(os.path.join(d, lay.filename + "." + cont), gen.contain(data, cont, **kw))
    bsz = rng.choice([64, 100, 1000, 4096, 65536, 65536])
    a = b = None
    wk = "none"
    vals_only = [v for _, v in recs if v is not None]
    inst = sorted({fsgen.record_instant_ns(lay, v) for v in vals_only})
    if inst and rng.random() < window_prob:
        wk = rng.choice(["a", "b", "ab", "a=b", "empty"])
        x, y = sorted([rng.choice(inst), rng.choice(inst)])
        if wk == "empty":
            a = inst[-1] + gen.NS
        elif wk == "a=b":
            a = b = x
        else:
            a = x if "a" in wk else None
            b = y if "b" in wk else None
    return dict(d=d, lay=lay, recs=recs, path=path, cont=cont, bsz=bsz, mode=mode, full=full, nulls=nulls, a=a, b=b, wk=wk, n=n, ambig=ambig, sparse=sparse)


def model(case):
    """expected sequence of values dicts"""
    lay = case["lay"]
    live = [v for _, v in case["recs"] if v is not None]
    keyed = [(fsgen.record_tv_pair(lay, v), i, v) for i, v in enumerate(live)]
    keyed.sort(key=lambda x: (x[0], x[1]))   # stable by time
    out = []
    for tv, i, v in keyed:
        ns = fsgen.record_instant_ns(lay, v)
        if case["a"] is not None and ns < case["a"]:
            continue
        if case["b"] is not None and ns > case["b"]:
            continue
        out.append(v)
    return out


def job(args):
    s4, case = args
    argv = [s4, "--color", "never", "-t=+00:00", "--blocksz", str(case["bsz"])]
    if case["a"] is not None:
        argv += ["-a", bound_str(case["a"])]
    if case["b"] is not None:
        argv += ["-b", bound_str(case["b"])]
    r = core.run(argv + ["-s", case["path"]], core.base_env(tmpdir=case["d"]), timeout=120)
    repeat_outs = []
    if case.get("ambig"):
        # the same command again: the choice between equally plausible layouts must not differ from run to run
        for _ in range(4):
            r2 = core.run(argv + ["-s", case["path"]], core.base_env(tmpdir=case["d"]), timeout=120)
            repeat_outs.append(r2.out)
    return r, repeat_outs


def chosen_type(err):
    for ln in err.decode("utf-8", "replace").splitlines():
        ln = ln.strip()
        if ln.startswith("fixedstructtype: Fs_"):
            return ln.split(":", 1)[1].strip()
    return None


def judge(ctx, case, r, prefix="C08"):
    lay = case["lay"]
    info = {"argv": r.argv, "env": r.env, "layout": lay.name, "mode": case["mode"], "full_width": case["full"], "nulls": case["nulls"],
            "container": case["cont"], "stderr_head": r.err[:300]}
    ctx.count("layout:%s" % lay.name)
    ctx.count("time-mode:%s" % case["mode"])
    if case["full"]:
        ctx.count("cases with full-width string fields")
    if case["nulls"]:
        ctx.count("cases with null records interleaved")
    ctx.count("window:%s" % case["wk"])
    want = model(case)
    if r.rc not in (0, 1):
        ctx.violation("%s|exit|rc=%s" % (prefix, r.rc), "exit status %s" % r.rc, src_dir=case["d"], info=info)
        return
    got_type = chosen_type(r.err)
    if prefix != "C08":
        # layout selection, the stray NUL and full-width fields are C08's own subject
        if not getattr(lay, "selectable", True) or (got_type is not None and got_type != lay.name) or (got_type is None and case["full"]):
            ctx.count("cases left to C08 (layout selection)")
            return
    if not getattr(lay, "selectable", True):
        if got_type != lay.name:
            ctx.violation("%s|layout-cannot-be-selected|%s" % (prefix, lay.name), "records of layout %s in a file named %s are read as %s" % (
                lay.name, lay.filename, got_type), src_dir=case["d"], info=info)
            return
    elif got_type is not None and got_type != lay.name:
        sig = "%s|wrong-layout-chosen|%s->%s" % (prefix, lay.name, got_type)
        other = fsgen.LAYOUTS.get(got_type)
        fsz = sum(len(r) for r, _ in case["recs"])
        if case["full"] and other is not None and fsz % other.size == 0:
            # every string field filled to its width (no NUL) and the file size is also a multiple of
            # the other layout's record size: the scoring heuristic cannot tell them apart
            sig = "%s|wrong-layout-chosen|full-width-fields-and-size-divisible-by-both" % prefix
        elif other is not None and fsz % other.size == 0 and fsz % lay.size == 0 and {lay.name, other.name} == {"Fs_Netbsd_x8632_Utmpx", "Fs_Netbsd_x8664_Utmpx"}:
            # NetBSD utmpx, 516-byte (x86-32) vs 520-byte (x86-64) records, file size a multiple of both (130 x 516 = 129 x 520):
            # the score is the best of the first five records, record one is aligned in both readings and scores the same
            sig = "%s|wrong-layout-chosen|netbsd-utmpx-32-vs-64|size-divisible-by-both-record-sizes" % prefix
        ctx.violation(sig, "file of %d %s records read as %s" % (case["n"], lay.name, got_type), src_dir=case["d"], info=info)
        return
    if got_type is None and case["full"] and not r.out and want:
        ctx.violation("%s|no-layout-chosen|full-width-fields" % prefix, "file of %d full-width %s records: no layout scored high enough, nothing printed (stderr %r)" % (
            case["n"], lay.name, r.err[:120]), src_dir=case["d"], info=info)
        return
    out = r.out
    nul = b"\n\x00" in out
    lines = fsgen.split_printed(out)
    if nul and prefix == "C08":
        ctx.violation("%s|nul-byte-after-each-record" % prefix, "a NUL byte follows the newline of every record", src_dir=case["d"], info=info)
    got = []
    for ln in lines:
        try:
            got.append(fsgen.parse_printed_line(lay, ln))
        except Exception as e:   # unparsable line
            got.append({"__unparsable__": ln[:200]})
    exp = [fsgen.expected_fields(lay, v) for v in want]
    if got == exp:
        if len(ctx.samples) < 5 and len(exp) > 2 and case["mode"] != "increasing":
            ctx.sample({"layout": lay.name, "records": case["n"], "time_mode": case["mode"], "container": case["cont"], "blocksz": case["bsz"],
                        "window": case["wk"], "first_line": lines[0][:160] if lines else ""})
        return
    # classify
    def ident(f):
        return tuple(sorted((k, v) for k, v in f.items() if isinstance(v, (int, bytes, str)) and k not in ("__unparsable__",)))
    gi, ei = [ident(g) for g in got], [ident(e) for e in exp]
    if any("__unparsable__" in g for g in got):
        sig, what = "%s|unparsable-line" % prefix, "a printed line does not follow the record format: %r" % ([g for g in got if "__unparsable__" in g][0],)
    elif sorted(gi) == sorted(ei):
        # same records, other order
        tvs = [fsgen.record_tv_pair(lay, v) for v in want]
        sig = "%s|order|%s" % (prefix, "equal-time-records-not-in-file-order" if len(set(tvs)) < len(tvs) else "not-in-time-order")
        what = "records printed in another order than the stable time sort"
    elif len(gi) < len(ei) and all(g in ei for g in gi):
        # missing records: is it exactly 'only the last of every equal-time group survives'?
        groups = {}
        for v in want:
            groups.setdefault(fsgen.record_tv_pair(lay, v), []).append(ident(fsgen.expected_fields(lay, v)))
        survivors = [g[-1] for tv, g in sorted(groups.items())]
        zero = [v for v in want if fsgen.record_tv_pair(lay, v) == (0, 0)]
        if gi == survivors:
            sig = "%s|records-with-equal-time-dropped-except-last" % prefix
        else:
            sig = "%s|records-missing" % prefix
        what = "%d of %d records printed" % (len(gi), len(ei))
    elif len(gi) > len(ei):
        sig, what = "%s|records-repeated-or-extra" % prefix, "%d lines for %d records" % (len(gi), len(ei))
    elif len(gi) == len(ei):
        k = next(i for i in range(len(gi)) if gi[i] != ei[i])
        diff = [f for f in exp[k] if got[k].get(f) != exp[k][f]]
        sig = "%s|field-values-differ|%s" % (prefix, lay.kind)
        if case["full"]:
            sig += "|full-width-fields"
        what = "record %d: fields %s differ: got %r want %r" % (k, diff[:4], {f: got[k].get(f) for f in diff[:4]}, {f: exp[k][f] for f in diff[:4]})
    else:
        sig, what = "%s|records-differ" % prefix, "%d lines, %d expected, not a subset" % (len(gi), len(ei))
    if case["wk"] != "none" and "dropped-except-last" not in sig:
        sig += "|window-%s" % case["wk"]
    ctx.violation(sig, what, src_dir=case["d"], files={"observed.stdout": out}, info=info)


def run_cases(ctx, s4, ncases, window_prob, prefix):
    rng = ctx.rng
    jobs = [(s4, make_case(ctx, rng, cid, window_prob)) for cid in range(ncases)]
    for (s4_, case), (r, repeat_outs) in zip(jobs, core.pmap(job, jobs)):
        if r.timed_out:
            ctx.inconc("watchdog")
            continue
        ctx.evaluated(1, (case["lay"].name, case["mode"], case["cont"], case["bsz"], case["wk"], case["full"], case["nulls"], min(case["n"], 20)))
        if case.get("ambig"):
            ctx.count("files whose size is also a multiple of another layout's record size (5 runs each)")
            if any(o != r.out for o in repeat_outs):
                ctx.violation("%s|output-differs-between-runs-of-the-same-command|%s-vs-%s" % (prefix, case["lay"].name, case["ambig"]),
                              "%d %s records (%d bytes, also a multiple of %s's record size): %d distinct outputs in 5 runs" % (
                                  case["n"], case["lay"].name, sum(len(x) for x, _ in case["recs"]), case["ambig"], len({r.out} | set(repeat_outs))),
                              src_dir=case["d"], info={"argv": r.argv, "env": r.env})
        if case.get("sparse"):
            ctx.count("sparse files (100..70000 leading null records)")
        judge(ctx, case, r, prefix)


def run(ctx):
    s4 = core.build_s4()
    ctx.rule = ("16 layouts x 1..300 records x time multisets (increasing, shuffled, reversed, duplicates, all equal, equal seconds with "
                "different microseconds, halves swapped) x null records interleaved x full-width string fields x block sizes 64..65536 x "
                "plain/gz/bz2/xz/lz4/tar x windows on record instants; every printed line parsed back into fields; distinct = "
                "(layout, time mode, container, blocksz, window, full-width, nulls, size class)")
    ctx.assumptions = ["vlib/fsgen.py layout tables restate the C ABI sizes and offsets independently of the repository"]
    run_cases(ctx, s4, ctx.pick(4000, 40000), 0.3, "C08")
