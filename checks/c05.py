"""C05 - compression and archiving are transparent.

Oracle: differential. For the same payload bytes, options, block size and window,
stdout of the container form must equal stdout of the plain form. Payloads: text
(boundary-directed), fixed-struct records (all selectable layouts), shipped evtx
and journal files. Containers: gz (levels, stored blocks, header fields), bz2
(levels), xz (presets, integrity checks, dictionary sizes, multi-block via the xz
CLI), lz4 frames written by hand (block splits not aligned with the read block
size, stored / literal-only blocks, checksums, content size), tar (ustar/gnu/pax,
member position and count, long member names).
"""
import lzma
import os
import shutil
import subprocess
import tarfile

from vlib import cases, core, fixtures, fsgen, gen

LEVEL = "exploration"


def codec_variant(rng, codec, data):
    """(bytes, description) of `data` in a randomly parameterised container."""
    if codec == "gz" and rng.random() < 0.08 and len(data) > 2:
        # several gzip members in one file (`cat a.gz b.gz`, `gzip -c x >> a.gz`): a valid gzip file that gunzip restores whole
        k = rng.choice([2, 2, 3])
        cuts = sorted(rng.sample(range(1, len(data)), k - 1))
        parts = [data[a:b] for a, b in zip([0] + cuts, cuts + [len(data)])]
        return b"".join(gen.gz_bytes(p_, level=rng.choice([1, 6])) for p_ in parts), "gz members=%d" % k
    if codec == "gz":
        kw = dict(level=rng.choice([1, 6, 9]), stored=rng.random() < 0.25, mtime=rng.choice([0, 1_600_000_000]),
                  fname=rng.choice([None, b"orig.log", b"x" * 300]), comment=rng.choice([None, None, b"a comment"]),
                  extra=rng.choice([None, None, b"AB\x04\x00abcd"]), hcrc=rng.random() < 0.2)
        return gen.gz_bytes(data, **kw), "gz " + ",".join("%s=%s" % (k, (v if not isinstance(v, bytes) else len(v))) for k, v in sorted(kw.items()) if v)
    if codec == "bz2":
        lv = rng.choice([1, 2, 5, 9])
        return gen.bz2_bytes(data, lv), "bz2 level=%d" % lv
    if codec == "xz":
        kw = dict(preset=rng.choice([0, 1, 6, 9]), check=rng.choice([lzma.CHECK_NONE, lzma.CHECK_CRC32, lzma.CHECK_CRC64, lzma.CHECK_SHA256]),
                  dict_size=rng.choice([None, None, 4096, 65536, 1 << 20]))
        return gen.xz_bytes(data, **kw), "xz preset=%(preset)s check=%(check)s dict=%(dict_size)s" % kw
    if codec == "lz4":
        bm = rng.choice([4, 4, 5, 6, 7])
        bmax = {4: 65536, 5: 262144, 6: 1 << 20, 7: 4 << 20}[bm]
        split = rng.choice([bmax, bmax, 65536, 32768, 5000, 1000, 777, 64, 100000, max(1, len(data) // 3)])
        split = max(1, min(split, bmax))
        kw = dict(split=split, block_max=bm, content_size=rng.random() < 0.4, content_checksum=rng.random() < 0.4,
                  block_checksum=rng.random() < 0.3, stored=rng.random() < 0.5)
        return gen.lz4_frame(data, **kw), "lz4 split=%(split)d bmax=%(block_max)d csz=%(content_size)s cck=%(content_checksum)s bck=%(block_checksum)s stored=%(stored)s" % kw
    raise ValueError(codec)


def lz4_chunk_class(desc, blocksz):
    if not desc.startswith("lz4"):
        return None
    split = int(desc.split("split=")[1].split()[0])
    return "aligned" if split % blocksz == 0 else "misaligned"


def text_payload(ctx, rng, d):
    B = rng.choice([64, 1000, 4096, 65536])
    size_goal = rng.choice(["small", "small", "blocks", "many"])
    n = {"small": rng.choice([1, 2, 5]), "blocks": rng.choice([20, 60]), "many": rng.choice([300, 1500])}[size_goal]
    # messages average about B/2 bytes: keep the payload under ~1.5 MB
    n = max(1, min(n, 3_000_000 // max(B, 64)))
    pre, msgs = cases.aligned_log(rng, B, n, long_lines=(B <= 4096 and n <= 60), cont_classes=("ascii", "bin", "utf8"))
    tn = rng.random() < 0.8
    data = gen.log_bytes(msgs, tn)
    inst = sorted({m.ns for m in msgs})
    return "text", "t.log", data, inst, B


def fs_payload(ctx, rng, d):
    lay = rng.choice([l for l in fsgen.LAYOUTS.values() if getattr(l, "selectable", True)])
    n = rng.choice([1, 2, 8, 40, 200])
    t0 = 1_690_000_000
    recs, inst = [], []
    for i in range(n):
        sec = t0 + 100 * i
        rec, vals = fsgen.make_record(lay, i, sec, usec=(i * 7) % 1000000)
        recs.append(rec)
        inst.append(fsgen.record_instant_ns(lay, vals))
    return "fixedstruct:" + lay.name, lay.filename, fsgen.build_file(lay, recs), sorted(inst), rng.choice([64, 1000, 4096, 65536])


def bound_str(ns):
    y, mo, d, h, mi, s, n, _ = gen.civil(ns, 0)
    return "%04d-%02d-%02dT%02d:%02d:%02d.%06d+00:00" % (y, mo, d, h, mi, s, n // 1000)


def window_args(rng, inst):
    args, desc = [], "nowindow"
    if inst and rng.random() < 0.5:
        a = rng.choice(inst)
        b = rng.choice(inst)
        if a > b:
            a, b = b, a
        k = rng.choice(["ab", "a", "b"])
        if "a" in k:
            args += ["-a", bound_str(a)]
        if "b" in k:
            args += ["-b", bound_str(b)]
        desc = "window-" + k
    return args, desc


def run_pair(job):
    s4, plain, cont, bszs, wargs, extra = job
    res = []
    for b in bszs:
        base = [s4, "--color", "never", "-t=+00:00", "--blocksz", str(b)] + extra + wargs
        env = core.base_env(tmpdir=os.path.dirname(cont[0]))
        rp = core.run(base + plain, env, timeout=300)
        rc = core.run(base + cont, env, timeout=300)
        res.append((b, rp, rc))
    return res


def inproc_job(args):
    h, path, ref, lo, hi = args
    return core.run([h, "lines", path, str(lo), str(hi), "0", ref], core.base_env(), timeout=600)


def run_inprocess(ctx, rng):
    """LineReader over a compressed file at EVERY block size from 1 (decoder chunking against block size, exhaustively
    for small files) against the reference lines of the plain bytes; harness `s4verif lines`."""
    import json
    h = core.build_harness()
    d = ctx.casedir("inproc")
    jobs, meta = [], []
    for i in range(ctx.pick(160, 3000)):
        n = rng.choice([1, 2, 7, 30, 64, 65, 200, 1000])
        data = bytes(rng.choice(b"ab\n\n\r\x00\xff xyz") for _ in range(n))
        ref = gen.write(os.path.join(d, "p%05d.txt" % i), data)
        codec = rng.choice(["gz", "bz2", "xz", "lz4", "lz4"])
        cb, desc = codec_variant(rng, codec, data)
        if codec == "lz4":
            # lz4 block splits far below the data size so that many block sizes are not aligned with them
            split = rng.choice([1, 3, 7, 16, 33, 100])
            cb = gen.lz4_frame(data, split=split, stored=rng.random() < 0.5, content_checksum=rng.random() < 0.5)
            desc = "lz4 split=%d" % split
        path = gen.write(os.path.join(d, "p%05d.txt.%s" % (i, codec)), cb)
        jobs.append((h, path, ref, 1, min(len(data) + 2, 260)))
        meta.append((desc, data))
    for (desc, data), r in zip(meta, core.pmap(inproc_job, jobs)):
        if r.timed_out:
            ctx.inconc("watchdog")
            continue
        try:
            st = json.loads(r.out.decode().splitlines()[0])
        except Exception:
            ctx.violation("C05|inprocess|crash|%s" % desc.split()[0], "harness died: rc=%s stderr=%r" % (r.rc, r.err[-300:]), files={"input": data})
            continue
        ctx.evaluated(st["pairs"], ("inproc", desc, len(data)))
        ctx.count("in-process streamed LineReader (file, blocksz) pairs", st["pairs"])
        ctx.count("in-process container:%s" % desc.split()[0], st["pairs"])
        if st["mismatches"]:
            first = [l for l in r.out.decode("utf-8", "replace").splitlines() if l.startswith("MISMATCH")][:3]
            allm = [l for l in r.out.decode("utf-8", "replace").splitlines() if l.startswith("MISMATCH")]
            sig = "C05|inprocess|%s|lines-differ-from-plain" % desc.split()[0]
            if allm and all("Unsupported SHA-256 checksum" in l for l in allm):
                sig = "C05|xz|sha256-check-unsupported"
            if desc.startswith("gz members="):
                sig = "C05|gz|several-members|only-the-part-announced-by-the-last-trailer-is-read"
            ctx.violation(sig, "%s: %s" % (desc, "; ".join(first)), files={"input": data, "harness.out": r.out}, info={"argv": r.argv})


def run(ctx):
    s4 = core.build_s4()
    rng = ctx.rng
    run_inprocess(ctx, rng)
    ncases = ctx.pick(300, 6000)
    ctx.rule = ("payload (text boundary-directed / fixed-struct layouts / shipped evtx+journal) x container variant (gz, bz2, xz, hand-written "
                "lz4 frames incl. block splits not aligned to the read block size, tar ustar/gnu/pax with 1..4 members and long names) x "
                "block size x window; distinct = (payload kind, container parameter string, blocksz, window kind)")
    ctx.assumptions = ["python gzip/bz2/lzma/tarfile produce valid streams",
                       "the lz4 frame writer (vlib/gen.py) is valid per the frame spec; cross-checked with the lz4 CLI when it is installed"]
    lz4cli = shutil.which("lz4") or ("/root/miniconda/bin/lz4" if os.path.exists("/root/miniconda/bin/lz4") else None)
    jobs, meta = [], []
    bin_fixtures = []
    if True:
        for p in fixtures.evtxs():
            bin_fixtures.append(("evtx", p))
        for p in fixtures.journals():
            if os.path.getsize(p) < 3_000_000 or not ctx.quick:
                bin_fixtures.append(("journal", p))
    for cid in range(ncases):
        d = ctx.casedir("case%05d" % cid)
        r = rng.random()
        extra = []
        if r < 0.62:
            kind, fname, data, inst, B = text_payload(ctx, rng, d)
        elif r < 0.9:
            kind, fname, data, inst, B = fs_payload(ctx, rng, d)
        else:
            kind, src = rng.choice(bin_fixtures)
            fname = "f." + kind
            data = open(src, "rb").read()
            inst, B = [], 65536
            if kind == "journal":
                extra = ["--journal-output", rng.choice(["short", "export", "cat", "verbose", "short-iso-precise"])]
        codec = rng.choice(["gz", "bz2", "xz", "lz4", "lz4", "tar", "tar"])
        os.makedirs(os.path.join(d, "p"), exist_ok=True)
        os.makedirs(os.path.join(d, "c"), exist_ok=True)
        plain = [gen.write(os.path.join(d, "p", fname), data)]
        if codec == "tar":
            fmt = rng.choice([tarfile.USTAR_FORMAT, tarfile.GNU_FORMAT, tarfile.PAX_FORMAT])
            fmtname = {tarfile.USTAR_FORMAT: "ustar", tarfile.GNU_FORMAT: "gnu", tarfile.PAX_FORMAT: "pax"}[fmt]
            nmem = rng.choice([1, 1, 2, 4]) if kind == "text" else 1
            pos = rng.randrange(nmem)
            longname = fmt != tarfile.USTAR_FORMAT and rng.random() < 0.35
            members, plain = [], []
            for k in range(nmem):
                if k == pos:
                    mdata, mname = data, fname
                else:
                    _, _, mdata, _, _ = text_payload(ctx, rng, d)
                    mname = "other%d.log" % k
                sub = ("very/" + "long-directory-name-" * 6 + "/") if longname else "dir%d/" % k
                if kind != "text":
                    inner = sub + mname
                else:
                    inner = sub + "m%d-" % k + mname
                members.append((inner, mdata, 1_600_000_000))
                pp = os.path.join(d, "p", "m%d" % k)
                os.makedirs(pp, exist_ok=True)
                plain.append(gen.write(os.path.join(pp, os.path.basename(inner)), mdata))
            others = rng.random() < 0.4
            cont = [gen.write(os.path.join(d, "c", "arch.tar"), gen.tar_bytes(members, fmt, other_entries=others))]
            desc = "tar %s members=%d pos=%d longname=%s dir-and-link-entries=%s" % (fmtname, nmem, pos, longname, others)
        else:
            if codec == "xz" and rng.random() < 0.25 and shutil.which("xz") and len(data) > 20000:
                # multi-block xz through the CLI
                p = gen.write(os.path.join(d, "c", fname), data)
                bs = rng.choice([4096, 65536, 100000])
                subprocess.run(["xz", "-z", "-k", "--block-size=%d" % bs, "-T1", p], check=True)
                os.unlink(p)
                cont = [p + ".xz"]
                desc = "xz cli multi-block block-size=%d" % bs
            else:
                cb, desc = codec_variant(rng, codec, data)
                cont = [gen.write(os.path.join(d, "c", fname + "." + codec), cb)]
                if codec == "lz4" and lz4cli and cid % 10 == 0:
                    dec = subprocess.run([lz4cli, "-d", "-c", cont[0]], capture_output=True)
                    if dec.returncode != 0 or dec.stdout != data:
                        raise core.HarnessError("lz4 frame writer produced a frame the lz4 CLI rejects: %s %r" % (desc, dec.stderr[:200]))
                    ctx.count("lz4 frames cross-validated with the lz4 CLI")
        wargs, wdesc = window_args(rng, inst)
        bszs = sorted({B, rng.choice([64, 1000, 4096, 65536, 1 << 20]), max(64, min(0xFFFFFF, len(data) + rng.choice([-1, 0, 1])))})
        if ctx.quick:
            # keep the size-derived block size (last block of 0 / 1 / blocksz-1 bytes) for small payloads
            keep = [b for b in bszs if abs(b - len(data)) <= 1 and len(data) <= 200_000]
            bszs = sorted(set(bszs[:2] + keep[:1]))
        jobs.append((s4, plain, cont, bszs, wargs, extra))
        meta.append((d, kind, desc, wdesc, len(data)))
    for (d, kind, desc, wdesc, dlen), results in zip(meta, core.pmap(run_pair, jobs)):
        for b, rp, rc in results:
            if rp.timed_out or rc.timed_out:
                ctx.inconc("watchdog")
                continue
            k0 = kind.split(":")[0]
            ctx.evaluated(1, (kind, desc, b, wdesc))
            ctx.count("payload:%s" % k0)
            ctx.count("container:%s" % desc.split()[0])
            lc = lz4_chunk_class(desc, b)
            if lc:
                ctx.count("lz4 block split vs read block: %s" % lc)
            if rp.out:
                ctx.count("pairs where the plain run printed something")
            info = {"plain_argv": rp.argv, "container_argv": rc.argv, "env": rc.env, "container": desc, "payload": kind,
                    "plain_stderr": rp.err[-400:], "container_stderr": rc.err[-400:], "plain_rc": rp.rc, "container_rc": rc.rc}
            if rc.rc not in (0, 1):
                ctx.violation("C05|exit|%s|rc=%s" % (desc.split()[0], rc.rc), "container run exit status %s" % rc.rc, src_dir=d, info=info)
                continue
            if rp.out != rc.out:
                codec = desc.split()[0]
                if not rc.out and rp.out:
                    how = "container-prints-nothing"
                elif len(rc.out) < len(rp.out) and rp.out.startswith(rc.out):
                    how = "container-output-truncated"
                elif len(rc.out) == len(rp.out):
                    how = "same-length-different-bytes"
                else:
                    how = "different"
                sig = "C05|%s|%s|%s" % (k0, codec, how)
                if codec == "xz" and "check=10" in desc and not rc.out and b"Unsupported SHA-256 checksum" in rc.err:
                    sig = "C05|xz|sha256-check-unsupported"
                if codec == "gz" and "members=" in desc:
                    sig = "C05|gz|several-members|only-the-part-announced-by-the-last-trailer-is-read"
                if codec == "bz2" and not rc.out and b"huffman bitstream truncated" in rc.err:
                    # bzip2-rs buffers at most one block-size of *compressed* bytes per block: a block of incompressible data,
                    # which bzip2 stores slightly expanded, cannot be decoded
                    try:
                        span, lim = gen.bz2_max_block_span(open(rc.argv[-1], "rb").read())
                    except OSError:
                        span, lim = 0, 0
                    # (the window must hold the block and the 10-byte magic + CRC that follows it: observed limit 99990 ok, 99998 fails)
                    if lim and span + 10 > lim:
                        sig = "C05|bz2|compressed-block-not-smaller-than-the-block-size|decoder-error"
                if codec == "lz4" and lc == "misaligned":
                    sig += "|block-split-not-multiple-of-blocksz"
                if codec == "tar" and "longname=True" in desc:
                    sig += "|long-member-name"
                ctx.violation(sig, "%s in %s at --blocksz %d (%s): plain %d bytes, container %d bytes; container stderr %r" % (
                    kind, desc, b, wdesc, len(rp.out), len(rc.out), rc.err[-200:]), src_dir=d,
                    files={"plain.stdout": rp.out, "container.stdout": rc.out}, info=info)
            elif len(ctx.samples) < 5 and rp.out and (lc == "misaligned" or "tar" in desc):
                ctx.sample({"payload": kind, "container": desc, "blocksz": b, "window": wdesc, "payload_bytes": dlen, "stdout_bytes": len(rp.out)})
