"""C03 - a datetime window selects exactly the messages inside it.

(Every kind of source: text below; fixed-struct records through checks.c08's record
model with a window on every case; evtx and journal through the independent dumps
of checks.c10 / checks.c09 with bounds exactly on, and 1 us around, record times.)

Oracle: window model A <= t <= B over generator-known instants (unique tokens), for
text sources (plain: binary search; compressed/tar: linear scan) at several block
sizes, with bounds before / between / exactly on / 1 us around / after message
instants and A = B. Fixed-struct, evtx and journal windows are covered in
checks c08 / c10 / c09 with their own independent oracles and re-used here in the
thorough tier through those modules' window routines.
"""
import os

from vlib import cases, core, gen

LEVEL = "exploration"


def bound_str(ns, rng):
    """absolute bound with explicit offset, microsecond resolution"""
    off = rng.choice([0, 0, 330, -480])
    y, mo, d, h, mi, s, n, _ = gen.civil(ns, off)
    style = rng.randrange(3)
    if style == 0:
        return "%04d-%02d-%02dT%02d:%02d:%02d.%06d%s" % (y, mo, d, h, mi, s, n // 1000, gen.off_str(off))
    if style == 1:
        return "%04d%02d%02dT%02d%02d%02d.%06d%s" % (y, mo, d, h, mi, s, n // 1000, gen.off_str(off, colon=False))
    return "%04d/%02d/%02d %02d:%02d:%02d.%06d %s" % (y, mo, d, h, mi, s, n // 1000, gen.off_str(off))


def choose_bound(rng, instants):
    """(ns or None, placement class)"""
    if not instants or rng.random() < 0.15:
        return None, "none"
    k = rng.choice(["before", "on", "on", "on", "on-1us", "on+1us", "between", "after"])
    t = rng.choice(instants)
    if k == "before":
        return instants[0] - rng.choice([1000, gen.NS, 86400 * gen.NS]), k
    if k == "after":
        return instants[-1] + rng.choice([1000, gen.NS, 86400 * gen.NS]), k
    if k == "on":
        return t, k
    if k == "on-1us":
        return t - 1000, k
    if k == "on+1us":
        return t + 1000, k
    i = rng.randrange(len(instants))
    j = min(i + 1, len(instants) - 1)
    return (instants[i] + instants[j]) // 2 // 1000 * 1000, k


def make_case(ctx, rng, cid):
    d = ctx.casedir("case%05d" % cid)
    tz_min = rng.choice([0, 0, 330, -480])
    B = rng.choice([64, 128, 255, 1024, 4096, 65536])
    srcs = []
    if rng.random() < 0.5:
        # one boundary-directed source: first qualifying message lands around block boundaries
        pre, msgs = cases.aligned_log(rng, B, rng.choice([3, 8, 20, 60]), tz_min=tz_min, long_lines=(B <= 1024),
                                      cont_classes=("ascii", "bin"), crlf=0.05)
        s = cases.Source(0, msgs, None, tz_min, rng.choice([None, None, None, "gz", "bz2", "xz", "lz4", "tar"]), rng.random() < 0.8)
        srcs.append(s)
    else:
        t0 = gen.instant(2022, rng.randint(1, 12), rng.randint(1, 28), rng.randint(0, 23), 0, 0)
        for sid in range(rng.choice([1, 2, 3])):
            cnt = rng.choice([1, 2, 5, 12, 50, 150])
            srcs.append(cases.make_source(rng, sid, cnt, t0, tz_min, mode=rng.choice(["ties", "ties", "subsec", "spread"]),
                                          codec=rng.choice([None, None, None, "gz", "bz2", "xz", "lz4", "tar"]), chrono=True))
    # block-zero admission (known finding, C02/C12's subject) must not blur the window verdict
    for _ in range(3):
        if all(cases.blockzero_class(b"", s.msgs, B, s.trailing_newline) is None for s in srcs):
            break
        B = {64: 255, 128: 255, 255: 1024, 1024: 4096, 4096: 65536}.get(B, 65536)
    else:
        if not all(cases.blockzero_class(b"", s.msgs, B, s.trailing_newline) is None for s in srcs):
            return None
    for s in srcs:
        s.write(d, rng)
    return d, srcs, tz_min, B


def job(args):
    s4, srcs, tz_min, B, windows = args
    res = []
    base = [s4, "--color", "never", cases.tz_arg(tz_min), "--blocksz", str(B)]
    files = [s.arg for s in srcs]
    for (a, ka, astr), (b, kb, bstr) in windows:
        argv = list(base)
        if a is not None:
            argv += ["-a", astr]
        if b is not None:
            argv += ["-b", bstr]
        r = core.run(argv + files, core.base_env(), timeout=120)
        res.append(((a, ka), (b, kb), r))
    return res


def run(ctx):
    s4 = core.build_s4()
    rng = ctx.rng
    ncases = ctx.pick(350, 5000)
    nwin = ctx.pick(6, 12)
    ctx.rule = ("chronological text sources (duplicate-timestamp runs, sub-second steps, boundary-directed layouts) plain (binary "
                "search) or gz/bz2/xz/lz4/tar (linear scan) at 6 block sizes; windows with each bound placed none/before/exactly on/"
                "-1us/+1us/between/after the instants, incl. A=B; distinct = (strategy, placement of A, placement of B, blocksz, "
                "selected-count class)")
    jobs, meta = [], []
    for cid in range(ncases):
        mc = make_case(ctx, rng, cid)
        if mc is None:
            continue
        d, srcs, tz_min, B = mc
        inst = sorted({m.ns for s in srcs for m in s.msgs})
        wins = []
        for _ in range(nwin):
            a, ka = choose_bound(rng, inst)
            if a is not None and rng.random() < 0.2:
                b, kb = a, "equal-A"
            else:
                b, kb = choose_bound(rng, inst)
            if a is not None and b is not None and a > b:
                a, b, ka, kb = b, a, kb, ka
            wins.append(((a, ka, bound_str(a, rng) if a is not None else None), (b, kb, bound_str(b, rng) if b is not None else None)))
        jobs.append((s4, srcs, tz_min, B, wins))
        meta.append((d, srcs, B))
    other_kinds(ctx, s4)
    for (d, srcs, B), results in zip(meta, core.pmap(job, jobs)):
        full = cases.merge_model(srcs, srcs)
        for (a, ka), (b, kb), r in results:
            if r.timed_out:
                ctx.inconc("watchdog")
                continue
            merged = cases.merge_model(srcs, srcs, a, b)
            exp = cases.expected_stdout(merged)
            strat = "+".join(sorted({"binary" if s.codec is None else "linear" for s in srcs}))
            sel = "none" if not merged else ("all" if len(merged) == len(full) else "some")
            ctx.evaluated(1, (strat, ka, kb, B, sel))
            ctx.count("placement A:%s" % ka)
            ctx.count("placement B:%s" % kb)
            ctx.count("strategy:%s" % strat)
            ctx.count("selected:%s" % sel)
            if "on" == ka or "on" == kb or kb == "equal-A":
                ctx.count("bounds exactly equal to a message instant")
            info = {"argv": r.argv, "env": r.env, "stderr": r.err[-500:], "A": a, "B": b}
            if r.out != exp:
                got, want = cases.tokens_of(r.out), cases.tokens_of(exp)
                gs, ws = set(got), set(want)
                byid = {(s.sid, i): s.msgs[i].ns for s in srcs for i in range(len(s.msgs))}
                extra = [g for g in got if g not in ws]
                missing = [w for w in want if w not in gs]
                if extra:
                    t = byid.get(extra[0])
                    where = "below-A" if (a is not None and t is not None and t < a) else ("above-B" if (b is not None and t is not None and t > b) else "?")
                    sig = "C03|printed-outside-window|%s" % where
                    what = "message %s (t=%s) printed outside [%s, %s]" % (extra[0], t, a, b)
                elif missing:
                    t = byid.get(missing[0])
                    edge = "t==A" if t == a else ("t==B" if t == b else "interior")
                    sig = "C03|missing-inside-window|%s|%s" % (edge, strat)
                    what = "message %s (t=%s) inside [%s, %s] not printed (%d missing)" % (missing[0], t, a, b, len(missing))
                elif got != want:
                    sig, what = "C03|order-differs", "selected messages are in a different order than without a window"
                else:
                    sig, what = "C03|bytes-differ", "same messages, different bytes"
                ctx.violation(sig, what, src_dir=d, files={"expected.stdout": exp, "observed.stdout": r.out}, info=info)
                continue
            if not merged and (r.rc != 0 or r.err.strip()):
                ctx.violation("C03|empty-selection-is-an-error|rc=%s" % r.rc, "empty selection: rc=%s stderr=%r" % (r.rc, r.err[-200:]),
                              src_dir=d, info=info)
                continue
            if len(ctx.samples) < 4 and sel == "some" and ("on" in (ka, kb)):
                ctx.sample({"argv": r.argv[1:], "A_class": ka, "B_class": kb, "selected": len(merged), "of": len(full)})


# --------------------------------------------------------------------------
# the other kinds of source

def other_kinds(ctx, s4):
    import re
    from checks import c08, c09, c10
    from vlib import fixtures
    rng = ctx.rng
    # fixed-struct records: every case carries a window
    c08.run_cases(ctx, s4, ctx.pick(1500, 15000), 1.0, "C03|fixedstruct")
    # evtx: independent dump
    h = core.build_harness()
    jobs, meta = [], []
    for p in fixtures.evtxs():
        recs, _ = c10.dump(h, p)
        inst = sorted({t for _, t in recs})
        for _ in range(ctx.pick(20, 200) if inst else 0):
            x, y = sorted([rng.choice(inst), rng.choice(inst)])
            k = rng.choice(["on", "a=b", "+1us", "-1us"])
            if k == "a=b":
                y = x
            elif k == "+1us":
                x, y = x + 1000, y + 1000
            elif k == "-1us":
                x, y = x - 1000, y - 1000
            jobs.append((s4, p, ["-a", c10.bound_str(x), "-b", c10.bound_str(y)], ctx.work, 65536))
            meta.append(("evtx", recs, x, y, k))
    for (kind, recs, a, b, k), r in zip(meta, core.pmap(c10.job, jobs)):
        keyed = sorted(((t, i, rid) for i, (rid, t) in enumerate(recs)), key=lambda z: (z[0], z[1]))
        want = [rid for t, i, rid in keyed if a <= t <= b]
        got = [int(z) for z in c10.RID.findall(r.out)]
        ctx.evaluated(1, ("evtx", k, len(want) > 0))
        ctx.count("evtx windows")
        if got != want:
            ctx.violation("C03|evtx|selection-differs|window-%s" % k, "evtx: %d records printed, %d lie in [%d, %d]" % (len(got), len(want), a, b),
                          info={"argv": r.argv, "env": r.env})
    # journal: journalctl export as reference
    jobs, meta = [], []
    for p in fixtures.journals():
        exp = c09.parse_export(c09.journalctl(p, "export"))
        rts = [int(c09.field(e, b"__REALTIME_TIMESTAMP")) for e in exp]
        for _ in range(ctx.pick(12, 120)):
            x, y = sorted([rng.choice(rts), rng.choice(rts)])
            k = rng.choice(["on", "a=b", "b-only", "a-only"])
            if k == "a=b":
                y = x
            wargs = (["-a", c09.bound_str(x, rng)] if k != "b-only" else []) + (["-b", c09.bound_str(y, rng)] if k != "a-only" else [])
            jobs.append((s4, p, "export", wargs, 0, ctx.work))
            meta.append((exp, x if k != "b-only" else None, y if k != "a-only" else None, k))
    for (exp, a, b, k), r in zip(meta, core.pmap(c09.job, jobs)):
        sel = [c09.field(e, b"__CURSOR") for e in exp if (a is None or int(c09.field(e, b"__REALTIME_TIMESTAMP")) >= a) and (b is None or int(c09.field(e, b"__REALTIME_TIMESTAMP")) <= b)]
        got = [c09.field(e, b"__CURSOR") for e in c09.parse_export_s4(r.out)]
        ctx.evaluated(1, ("journal", k, len(sel) > 0))
        ctx.count("journal windows")
        if got != sel:
            bye = {c09.field(e, b"__CURSOR"): e for e in exp}
            diff = set(got) ^ set(sel)
            src_diff = all(c09.field(bye[c], b"_SOURCE_REALTIME_TIMESTAMP") not in (None, c09.field(bye[c], b"__REALTIME_TIMESTAMP")) for c in diff if c in bye)
            sig = "C03|journal|window-applied-to-source-realtime-timestamp-not-receive-time" if (diff and src_diff) else "C03|journal|selection-differs|window-%s" % k
            ctx.violation(sig, "journal: %d entries printed, %d lie in the window [%s, %s]" % (len(got), len(sel), a, b), info={"argv": r.argv, "env": r.env})
