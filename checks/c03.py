"""C03 - a datetime window selects exactly the messages inside it.

Oracle: window model A <= t <= B over generator-known instants (unique tokens), for
text sources (plain: binary search; compressed/tar: linear scan) at several block
sizes, with bounds before / between / exactly on / 1 us around / after message
instants and A = B. Fixed-struct, evtx and journal windows are covered in
checks c08 / c10 / c09 with their own independent oracles and re-used here in the
thorough tier through those modules' window routines.
"""
import os

from vlib import cases, core, gen

LEVEL = "exploration"


def bound_str(ns, rng):
    """absolute bound with explicit offset, microsecond resolution"""
    off = rng.choice([0, 0, 330, -480])
    y, mo, d, h, mi, s, n, _ = gen.civil(ns, off)
    style = rng.randrange(3)
    if style == 0:
        return "%04d-%02d-%02dT%02d:%02d:%02d.%06d%s" % (y, mo, d, h, mi, s, n // 1000, gen.off_str(off))
    if style == 1:
        return "%04d%02d%02dT%02d%02d%02d.%06d%s" % (y, mo, d, h, mi, s, n // 1000, gen.off_str(off, colon=False))
    return "%04d/%02d/%02d %02d:%02d:%02d.%06d %s" % (y, mo, d, h, mi, s, n // 1000, gen.off_str(off))


def choose_bound(rng, instants):
    """(ns or None, placement class)"""
    if not instants or rng.random() < 0.15:
        return None, "none"
    k = rng.choice(["before", "on", "on", "on", "on-1us", "on+1us", "between", "after"])
    t = rng.choice(instants)
    if k == "before":
        return instants[0] - rng.choice([1000, gen.NS, 86400 * gen.NS]), k
    if k == "after":
        return instants[-1] + rng.choice([1000, gen.NS, 86400 * gen.NS]), k
    if k == "on":
        return t, k
    if k == "on-1us":
        return t - 1000, k
    if k == "on+1us":
        return t + 1000, k
    i = rng.randrange(len(instants))
    j = min(i + 1, len(instants) - 1)
    return (instants[i] + instants[j]) // 2 // 1000 * 1000, k


def make_case(ctx, rng, cid):
    d = ctx.casedir("case%05d" % cid)
    tz_min = rng.choice([0, 0, 330, -480])
    B = rng.choice([64, 128, 255, 1024, 4096, 65536])
    srcs = []
    if rng.random() < 0.5:
        # one boundary-directed source: first qualifying message lands around block boundaries
        pre, msgs = cases.aligned_log(rng, B, rng.choice([3, 8, 20, 60]), tz_min=tz_min, long_lines=(B <= 1024),
                                      cont_classes=("ascii", "bin"), crlf=0.05)
        s = cases.Source(0, msgs, None, tz_min, rng.choice([None, None, None, "gz", "bz2", "xz", "lz4", "tar"]), rng.random() < 0.8)
        srcs.append(s)
    else:
        t0 = gen.instant(2022, rng.randint(1, 12), rng.randint(1, 28), rng.randint(0, 23), 0, 0)
        for sid in range(rng.choice([1, 2, 3])):
            cnt = rng.choice([1, 2, 5, 12, 50, 150])
            srcs.append(cases.make_source(rng, sid, cnt, t0, tz_min, mode=rng.choice(["ties", "ties", "subsec", "spread"]),
                                          codec=rng.choice([None, None, None, "gz", "bz2", "xz", "lz4", "tar"]), chrono=True))
    # block-zero admission (known finding, C02/C12's subject) must not blur the window verdict
    for _ in range(3):
        if all(cases.blockzero_class(b"", s.msgs, B, s.trailing_newline) is None for s in srcs):
            break
        B = {64: 255, 128: 255, 255: 1024, 1024: 4096, 4096: 65536}.get(B, 65536)
    else:
        if not all(cases.blockzero_class(b"", s.msgs, B, s.trailing_newline) is None for s in srcs):
            return None
    for s in srcs:
        s.write(d, rng)
    return d, srcs, tz_min, B


def job(args):
    s4, srcs, tz_min, B, windows = args
    res = []
    base = [s4, "--color", "never", cases.tz_arg(tz_min), "--blocksz", str(B)]
    files = [s.arg for s in srcs]
    for (a, ka, astr), (b, kb, bstr) in windows:
        argv = list(base)
        if a is not None:
            argv += ["-a", astr]
        if b is not None:
            argv += ["-b", bstr]
        r = core.run(argv + files, core.base_env(), timeout=120)
        res.append(((a, ka), (b, kb), r))
    return res


def run(ctx):
    s4 = core.build_s4()
    rng = ctx.rng
    ncases = ctx.pick(350, 5000)
    nwin = ctx.pick(6, 12)
    ctx.rule = ("chronological text sources (duplicate-timestamp runs, sub-second steps, boundary-directed layouts) plain (binary "
                "search) or gz/bz2/xz/lz4/tar (linear scan) at 6 block sizes; windows with each bound placed none/before/exactly on/"
                "-1us/+1us/between/after the instants, incl. A=B; distinct = (strategy, placement of A, placement of B, blocksz, "
                "selected-count class)")
    jobs, meta = [], []
    for cid in range(ncases):
        mc = make_case(ctx, rng, cid)
        if mc is None:
            continue
        d, srcs, tz_min, B = mc
        inst = sorted({m.ns for s in srcs for m in s.msgs})
        wins = []
        for _ in range(nwin):
            a, ka = choose_bound(rng, inst)
            if a is not None and rng.random() < 0.2:
                b, kb = a, "equal-A"
            else:
                b, kb = choose_bound(rng, inst)
            if a is not None and b is not None and a > b:
                a, b, ka, kb = b, a, kb, ka
            wins.append(((a, ka, bound_str(a, rng) if a is not None else None), (b, kb, bound_str(b, rng) if b is not None else None)))
        jobs.append((s4, srcs, tz_min, B, wins))
        meta.append((d, srcs, B))
    for (d, srcs, B), results in zip(meta, core.pmap(job, jobs)):
        full = cases.merge_model(srcs, srcs)
        for (a, ka), (b, kb), r in results:
            if r.timed_out:
                ctx.inconc("watchdog")
                continue
            merged = cases.merge_model(srcs, srcs, a, b)
            exp = cases.expected_stdout(merged)
            strat = "+".join(sorted({"binary" if s.codec is None else "linear" for s in srcs}))
            sel = "none" if not merged else ("all" if len(merged) == len(full) else "some")
            ctx.evaluated(1, (strat, ka, kb, B, sel))
            ctx.count("placement A:%s" % ka)
            ctx.count("placement B:%s" % kb)
            ctx.count("strategy:%s" % strat)
            ctx.count("selected:%s" % sel)
            if "on" == ka or "on" == kb or kb == "equal-A":
                ctx.count("bounds exactly equal to a message instant")
            info = {"argv": r.argv, "env": r.env, "stderr": r.err[-500:], "A": a, "B": b}
            if r.out != exp:
                got, want = cases.tokens_of(r.out), cases.tokens_of(exp)
                gs, ws = set(got), set(want)
                byid = {(s.sid, i): s.msgs[i].ns for s in srcs for i in range(len(s.msgs))}
                extra = [g for g in got if g not in ws]
                missing = [w for w in want if w not in gs]
                if extra:
                    t = byid.get(extra[0])
                    where = "below-A" if (a is not None and t is not None and t < a) else ("above-B" if (b is not None and t is not None and t > b) else "?")
                    sig = "C03|printed-outside-window|%s" % where
                    what = "message %s (t=%s) printed outside [%s, %s]" % (extra[0], t, a, b)
                elif missing:
                    t = byid.get(missing[0])
                    edge = "t==A" if t == a else ("t==B" if t == b else "interior")
                    sig = "C03|missing-inside-window|%s|%s" % (edge, strat)
                    what = "message %s (t=%s) inside [%s, %s] not printed (%d missing)" % (missing[0], t, a, b, len(missing))
                elif got != want:
                    sig, what = "C03|order-differs", "selected messages are in a different order than without a window"
                else:
                    sig, what = "C03|bytes-differ", "same messages, different bytes"
                ctx.violation(sig, what, src_dir=d, files={"expected.stdout": exp, "observed.stdout": r.out}, info=info)
                continue
            if not merged and (r.rc != 0 or r.err.strip()):
                ctx.violation("C03|empty-selection-is-an-error|rc=%s" % r.rc, "empty selection: rc=%s stderr=%r" % (r.rc, r.err[-200:]),
                              src_dir=d, info=info)
                continue
            if len(ctx.samples) < 4 and sel == "some" and ("on" in (ka, kb)):
                ctx.sample({"argv": r.argv[1:], "A_class": ka, "B_class": kb, "selected": len(merged), "of": len(full)})
