"""C12 - the read block size never changes what is printed.

Oracle: differential. stdout(--blocksz b) must equal stdout(default block size)
for the same file(s) and options. Inputs are built *for* the block size under
test: line ends / message starts / timestamp fields at k*b-1, k*b, k*b+1, lines
longer than 1..3 blocks, files of size b-1, b, b+1, k*b; fixed-struct records that
straddle block edges; the same payloads inside gz/bz2/xz/lz4/tar (the block size
also steers decompression chunking); shipped evtx / journal files. The in-process
sweep below block size 64 (down to 1) is done by C02's harness part.
"""
import os

from vlib import cases, core, fixtures, fsgen, gen

LEVEL = "exploration"

BSZ_QUICK = [64, 65, 66, 70, 79, 127, 128, 129, 255, 1000, 2056, 2057, 4095, 4096, 4097, 8096, 65535, 65537, 0xFFFFFF]
BSZ_THOROUGH = sorted(set(BSZ_QUICK + list(range(64, 81)) + [100, 256, 511, 512, 513, 2047, 2048, 2049, 2055, 3000, 8095, 8097, 8192,
                                                              16384, 32768, 65534, 65538, 131072, 1 << 20]))


def text_case(rng, B):
    kind = rng.choice(["aligned", "aligned", "aligned", "size-exact", "long-first", "long-nth"])
    n = rng.choice([2, 3, 5, 9, 20, 40]) if B <= 8192 else rng.choice([3, 5, 9])
    if kind == "long-nth":
        # two or three short messages, then a message whose first line runs past the end of block zero (for every block size
        # from 8096 to about its end): the admission heuristic has to count that unfinished line (round-6 change C12f)
        n = max(n, 5)
        pre, msgs = cases.aligned_log(rng, 64, n, first_inside=True, long_lines=False, preamble=False)
        j = rng.choice([2, 2, 3])
        head = sum(len(m.data) for m in msgs[:j])
        reach = max(B, 8096) + rng.choice([1, 100, 5000]) if rng.random() < 0.5 else 65536 + rng.choice([1, 4000])
        m = msgs[j]
        nl = m.data.find(b"\n")
        nl = nl if nl != -1 else len(m.data)
        padn = max(0, reach - head - nl)
        m.data = m.data[:nl] + gen.filler(rng, padn, "ascii") + m.data[nl:]
    else:
        pre, msgs = cases.aligned_log(rng, B, n, first_inside=(kind != "long-first"), long_lines=(B <= 8192), preamble=(rng.random() < 0.15))
    tn = rng.random() < 0.75
    data = pre + gen.log_bytes(msgs, tn)
    if kind == "size-exact" and B <= 65537:
        # pad the last message so the file size is exactly k*B + {-1,0,1}
        want = rng.choice([-1, 0, 1])
        cur = len(data)
        k = max(1, (cur + B - 1) // B)
        target = k * B + want
        if target > cur:
            padn = target - cur
            fill = gen.filler(rng, padn, "ascii")
            if data.endswith(b"\n"):
                data = data[:-1] + fill + b"\n"
            else:
                data = data + fill
            # keep the message list in step with the bytes (the block-zero classification reads it)
            last = msgs[-1]
            if last.data.endswith(b"\n"):
                last.data = last.data[:-1] + fill + b"\n"
            else:
                last.data = last.data + fill
    return data, pre, msgs, tn, kind


def fs_case(rng, B):
    lay = rng.choice([l for l in fsgen.LAYOUTS.values() if getattr(l, "selectable", True)])
    # enough records that several straddle block edges (record size is never a multiple of most b)
    n = max(2, min(400, (3 * B) // lay.size + rng.choice([1, 2, 5]))) if B <= 65537 else rng.choice([3, 50])
    recs = []
    t = 1_690_000_000
    for i in range(n):
        t += rng.choice([1, 2, 3])
        rec, vals = fsgen.make_record(lay, i, t, usec=(i * 37) % 1000000)
        recs.append(rec)
    if rng.random() < 0.3:
        rng.shuffle(recs)      # stored out of time order
    return lay, fsgen.build_file(lay, recs)


def job(args):
    s4, path, bszs, opts, extra_env = args
    env = core.base_env(tmpdir=os.path.dirname(path))
    base = [s4, "--color", "never", "-t=+00:00"] + opts
    ref = core.run(base + [path], env, timeout=300)
    res = []
    for b in bszs:
        r = core.run(base + ["--blocksz", str(b), path], env, timeout=300)
        res.append((b, r))
    return ref, res


def run(ctx):
    s4 = core.build_s4()
    rng = ctx.rng
    bszs = ctx.pick(BSZ_QUICK, BSZ_THOROUGH)
    ncases = ctx.pick(420, 9000)
    ctx.rule = ("inputs built for the block size under test (text boundary-directed; fixed-struct records straddling block edges; the "
                "same in gz/bz2/xz/lz4/tar; shipped evtx/journal), printed at b, b-1/b+1 neighbours and one random other size, with "
                "and without prepended fields, compared with the default block size; distinct = (payload kind, container, blocksz, "
                "alignment classes hit)")
    jobs, meta = [], []
    fixt = [("evtx", p) for p in fixtures.evtxs()] + [("journal", p) for p in fixtures.journals()]
    from checks.c02 import alignment_classes
    for cid in range(ncases):
        d = ctx.casedir("case%05d" % cid)
        B = rng.choice(bszs)
        r = rng.random()
        al = ()
        bz = None
        if r < 0.6:
            data, pre, msgs, tn, kind = text_case(rng, B)
            name, payload = "t.log", "text:" + kind
            al = tuple(sorted(alignment_classes(pre, msgs, B)))
            bz = (pre, msgs, tn)
        elif r < 0.9:
            lay, data = fs_case(rng, B)
            name, payload = lay.filename, "fixedstruct:" + lay.name
        else:
            k, src = rng.choice(fixt)
            data = open(src, "rb").read()
            name, payload = "f." + k, k
            B = rng.choice([64, 1000, 4096, 65537, 1 << 20])
        cont = rng.choice([None, None, None, "gz", "bz2", "xz", "lz4", "tar"])
        if cont is None:
            path = gen.write(os.path.join(d, name), data)
        elif cont == "tar":
            path = gen.write(os.path.join(d, "a.tar"), gen.tar_bytes([("dir/" + name, data, 1_600_000_000)]))
        else:
            kw = {"split": rng.choice([65536, 4096, 1000, 777]), "stored": rng.random() < 0.5} if cont == "lz4" else {}
            path = gen.write(os.path.join(d, name + "." + cont), gen.contain(data, cont, **kw))
        use = sorted({max(64, min(0xFFFFFF, x)) for x in (B, B - 1, B + 1, rng.choice(bszs))})
        opts = rng.choice([[], [], ["-n", "-u"], ["-p", "-l", "-w"], ["-u", "-d", "%Y%m%dT%H%M%S%.9f"], ["-u", "-d", "%Y%m%dT%H%M%S%.9f"]])
        if bz is not None and rng.random() < 0.45:
            # the same options at every block size include a datetime window: the search for the first message (binary on plain
            # files, linear on streamed ones) walks the blocks differently at every block size
            inst = sorted({m.ns for m in bz[1]})
            a_, b_ = sorted([rng.choice(inst), rng.choice(inst)])
            def _bs(ns):
                y, mo, dd, hh, mi, ss, n, _ = gen.civil(ns, 0)
                return "%04d-%02d-%02dT%02d:%02d:%02d.%06d+00:00" % (y, mo, dd, hh, mi, ss, n // 1000)
            k = rng.choice(["a", "a", "b", "ab"])
            opts = opts + (["-a", _bs(a_)] if "a" in k else []) + (["-b", _bs(b_)] if "b" in k else [])
        if payload == "journal":
            opts = opts + ["--journal-output", rng.choice(["short", "export", "cat"])]
        jobs.append((s4, path, use, opts, None))
        meta.append((d, payload, cont, al, bz, B))
    for (d, payload, cont, al, bz, B), (ref, results) in zip(meta, core.pmap(job, jobs)):
        if ref.timed_out:
            ctx.inconc("watchdog")
            continue
        for b, r in results:
            if r.timed_out:
                ctx.inconc("watchdog")
                continue
            p0 = payload.split(":")[0]
            ctx.evaluated(1, (payload, cont, b, al))
            ctx.count("payload:%s" % p0)
            ctx.count("container:%s" % cont)
            for a in al:
                ctx.count("align:" + a)
            if ref.out:
                ctx.count("pairs where the default-blocksz run printed something")
            if r.out == ref.out and (r.rc == ref.rc):
                if len(ctx.samples) < 4 and ref.out and al and b == B:
                    ctx.sample({"payload": payload, "container": cont, "blocksz": b, "alignment": al, "stdout_bytes": len(ref.out), "argv": r.argv[1:-1]})
                continue
            info = {"argv": r.argv, "ref_argv": ref.argv, "env": r.env, "stderr": r.err[-400:], "ref_stderr": ref.err[-400:], "rc": r.rc, "ref_rc": ref.rc}
            if r.out == ref.out:
                # same output, different exit status
                ctx.violation("C12|exit-status-differs|%s" % p0, "exit %s at --blocksz %d vs %s at default" % (r.rc, b, ref.rc), src_dir=d, info=info)
                continue
            sig = None
            if bz is not None:
                klass = cases.blockzero_class(bz[0], bz[1], b, bz[2])
                klass_def = cases.blockzero_class(bz[0], bz[1], 65536, bz[2])
                if klass and not r.out and ref.out:
                    sig = "C12|blockzero|%s|stdout-empty" % klass
                elif klass_def and not ref.out and r.out:
                    sig = "C12|blockzero|%s|default-blocksz-stdout-empty" % klass_def
            if sig is None:
                if not r.out:
                    how = "prints-nothing"
                elif len(r.out) == len(ref.out):
                    how = "same-length-different-bytes"
                elif ref.out.startswith(r.out):
                    how = "truncated"
                else:
                    how = "different"
                sig = "C12|%s|%s|%s" % (p0, cont, how)
            ctx.violation(sig, "%s (%s) at --blocksz %d: %d bytes vs %d at default; stderr %r" % (payload, cont, b, len(r.out), len(ref.out), r.err[-160:]),
                          src_dir=d, files={"default.stdout": ref.out, "blocksz.stdout": r.out}, info=info)
