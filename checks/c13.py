"""C13 - prepended fields, separators and colour are pure decoration.

Oracle: for text and fixed-struct sources the decorated stream is *predicted* from
the generator's ground truth (merge order, message bytes, instants): every line is
`<file field><datetime field><line>`, in that order, each field followed by the
prepend separator; after each message comes the --separator; names are padded to
the widest printed name (display width). stdout must equal the prediction byte for
byte; with --color always, stdout with SGR sequences deleted must equal the
--color never stdout. For evtx / journal sources (no message model) a strict
line parser consumes the fields in order and the remainder must equal the
undecorated run.
"""
import os
import re
import unicodedata

from vlib import cases, core, fixtures, fsgen, gen

LEVEL = "exploration"

SGR = re.compile(rb"\x1b\[[0-9;]*m")

FORMATS = [
    None,  # default %Y%m%dT%H%M%S%.3f%z
    "%Y-%m-%d %H:%M:%S%.6f %:z",
    "%Y%m%dT%H%M%S%.9f",
    "%s",
    "%H:%M:%S%.3f|%j",
    "[%a %b %e %Y]",
    "%Y/%m/%d %H.%M.%S%.6f%z",
]
DEFAULT_FMT = "%Y%m%dT%H%M%S%.3f%z"


def strftime(ns, off_min, fmt):
    y, mo, d, h, mi, s, n, wd = gen.civil(ns, off_min)
    out = ""
    i = 0
    while i < len(fmt):
        c = fmt[i]
        if c != "%":
            out += c
            i += 1
            continue
        nxt = fmt[i + 1]
        if nxt == ".":
            digits = int(fmt[i + 2])
            out += "." + gen.frac_str(n, digits)
            i += 4
            continue
        if nxt == ":":
            out += gen.off_str(off_min, colon=True)
            i += 3
            continue
        i += 2
        if nxt == "Y":
            out += "%04d" % y
        elif nxt == "m":
            out += "%02d" % mo
        elif nxt == "d":
            out += "%02d" % d
        elif nxt == "e":
            out += "%2d" % d
        elif nxt == "H":
            out += "%02d" % h
        elif nxt == "M":
            out += "%02d" % mi
        elif nxt == "S":
            out += "%02d" % s
        elif nxt == "z":
            out += gen.off_str(off_min, colon=False)
        elif nxt == "s":
            out += "%d" % (ns // gen.NS)
        elif nxt == "j":
            out += "%03d" % ((gen.instant(y, mo, d) - gen.instant(y, 1, 1)) // (86400 * gen.NS) + 1)
        elif nxt == "a":
            out += gen.DAYS[wd]
        elif nxt == "b":
            out += gen.MONTHS[mo - 1]
        elif nxt == "%":
            out += "%"
        else:
            raise ValueError(fmt)
    return out


def dwidth(s):
    return sum(2 if unicodedata.east_asian_width(ch) in ("W", "F") else (0 if unicodedata.combining(ch) else 1) for ch in s)


SEP_CHOICES = [(None, b""), ("\\n--\\n", b"\n--\n"), ("\\t", b"\t"), ("<SEP>", b"<SEP>"), ("\\0", b"\x00"), ("\\e[K\\\\", b"\x1b[K\\"),
               ("\\a\\b\\f\\v\\r", b"\x07\x08\x0c\x0b\r")]
PSEP_CHOICES = [None, "|", " <> ", "::", "\t", "%", "%d|", "100%% ", "é→"]
TZ_ENVS = [("UTC", 0), ("<+0530>-5:30", 330), ("<-08>8", -480), ("<+1245>-12:45", 765)]


class FsSource:
    """fixed-struct source with the same interface bits as cases.Source"""

    def __init__(self, sid, layout, n, rng):
        self.sid, self.layout = sid, layout
        self.msgs = []
        self.lines = []
        t = 1_690_000_000 + rng.randint(0, 3)
        has_usec = layout.time_usec is not None
        us = 0
        for i in range(n):
            # strictly increasing times (equal times are C08's subject); where the layout has microseconds, several records
            # share a second and differ only below it, so the prepended datetime has to be each record's own
            inc = rng.choice([1, 250_000, 99_999])
            if has_usec and i and rng.random() < 0.5 and us + inc <= 999_999:
                us += inc
            else:
                t += rng.choice([1, 2])
                us = rng.choice([0, 7, 123_456]) if has_usec else 0
            rec, vals = fsgen.make_record(layout, i, t, usec=us)
            self.msgs.append((fsgen.record_instant_ns(layout, vals), rec))
        self.codec = None

    def write(self, d, name_dir):
        dd = os.path.join(d, name_dir)
        os.makedirs(dd, exist_ok=True)
        self.path = gen.write(os.path.join(dd, self.layout.filename), b"".join(r for _, r in self.msgs))
        self.arg = self.path


def make_case(ctx, rng, cid):
    d = ctx.casedir("case%05d" % cid)
    tz_min = 0
    srcs = []
    names = ["a.log", "longer-name-%d.log" % cid, "x y.log", "ñandú.log", "日本語.log", "z" * 40 + ".log", "b.txt"]
    rng.shuffle(names)
    t0 = gen.instant(2023, 7, 22, 4, 26, 40)
    n = rng.choice([1, 2, 3, 4])
    for sid in range(n):
        if rng.random() < 0.75:
            # one text source in five has lines longer than the printer's 2056-byte staging buffer
            longl = rng.random() < 0.2
            s = cases.make_source(rng, sid, rng.choice([1, 3, 8]) if longl else rng.choice([1, 3, 8, 25]), t0, tz_min,
                                  mode=rng.choice(["ties", "subus", "subsec", "dense"]),
                                  codec=None, chrono=True, ncont_max=3, cont_class=rng.choice(["ascii", "utf8", "bin"]),
                                  body_len=rng.choice([2040, 2100, 5000, 9000]) if longl else None)
            if longl:
                for m in s.msgs[::2]:
                    m.data += gen.filler(rng, rng.choice([2057, 3000, 70000]), "ascii") + b"\n"
                # block-zero analysis needs 3 lines and 2 messages inside the first 64 KiB (C02's known
                # finding when it does not get them): lead with three short messages
                extra = cases.make_source(rng, sid + 100, 3, t0 - 20 * gen.NS, tz_min, mode="dense", notation=s.notation,
                                          chrono=True, ncont_max=0, body_len=10).msgs
                assert extra[-1].ns <= s.msgs[0].ns
                s.msgs = extra + s.msgs
            data = s.plain_bytes()
            s.path = gen.write(os.path.join(d, names[sid]), data)
            s.arg = s.path if rng.random() < 0.7 else os.path.relpath(s.path, d)
            s.kind = "text"
            srcs.append(s)
        else:
            lay = rng.choice([l for l in fsgen.LAYOUTS.values() if getattr(l, "selectable", True)])
            s = FsSource(sid, lay, rng.choice([1, 2, 6]), rng)
            s.write(d, "fs%d" % sid)
            s.kind = "fixedstruct"
            srcs.append(s)
    if rng.random() < 0.3:
        # a file that prints nothing (no timestamp in it) under the widest name: it must not count for the -w width
        s = cases.Source(90, [], "iso_space", tz_min, None, True)
        s.path = gen.write(os.path.join(d, "a-very-long-name-of-a-file-that-prints-nothing-%d.log" % cid), b"no timestamp here\nnor here\n" * 3)
        s.arg = s.path if rng.random() < 0.5 else os.path.relpath(s.path, d)
        s.kind = "text"
        srcs.insert(rng.randint(0, len(srcs)), s)
    return d, srcs


def s4_options(rng):
    o = {}
    o["file"] = rng.choice([None, "-n", "-p"])
    o["w"] = o["file"] is not None and rng.random() < 0.5
    o["dt"] = rng.choice([None, "-u", "-l", "-z"])
    o["z"] = rng.choice([330, -480, 765, 0, 60, -210])
    o["fmt"] = rng.choice(FORMATS) if o["dt"] else None
    o["psep"] = rng.choice(PSEP_CHOICES)
    o["sep"] = rng.choice(SEP_CHOICES)
    o["tzenv"] = rng.choice(TZ_ENVS)
    return o


def argv_of(o, color):
    a = ["--color", color, "-t=+00:00"]
    if o["file"]:
        a.append(o["file"])
    if o["w"]:
        a.append("-w")
    if o["dt"] == "-z":
        a += ["--prepend-tz=" + gen.off_str(o["z"])]
    elif o["dt"]:
        a.append(o["dt"])
    if o["fmt"]:
        a += ["-d", o["fmt"]]
    if o["psep"] is not None:
        a += ["--prepend-separator", o["psep"]]
    if o["sep"][0] is not None:
        a += ["--separator", o["sep"][0]]
    return a


def merged_model(srcs):
    """[(src, ns, [lines (bytes, keepends)], supplied_newline)] in print order"""
    heads = []
    for s in srcs:
        if s.kind == "text":
            lst = []
            for i, m in enumerate(s.msgs):
                b = s.printed(i)
                lst.append((m.ns, b))
            heads.append(lst)
        else:
            heads.append(sorted([(ns, rec) for ns, rec in s.msgs], key=lambda x: x[0]))
    pos = [0] * len(srcs)
    out = []
    while True:
        best = None
        for k in range(len(srcs)):
            if pos[k] < len(heads[k]):
                ns = heads[k][pos[k]][0]
                if best is None or ns < best[0]:
                    best = (ns, k)
        if best is None:
            return out
        k = best[1]
        out.append((srcs[k], heads[k][pos[k]][0], heads[k][pos[k]][1], pos[k] == len(heads[k]) - 1))
        pos[k] += 1


def predict(srcs, o, undecorated_fs_lines):
    """decorated stdout (no colour) predicted from ground truth"""
    psep = (o["psep"] if o["psep"] is not None else ":").encode()
    sep = o["sep"][1]
    off = {"-u": 0, "-l": o["tzenv"][1], "-z": o["z"], None: None}[o["dt"]]
    fmt = o["fmt"] or DEFAULT_FMT
    printing = [s for s in srcs if s.msgs]
    names = {}
    for s in printing:
        nm = os.path.basename(s.arg) if o["file"] == "-n" else s.arg
        names[s.sid] = nm
    width = max([dwidth(n) for n in names.values()] or [0]) if o["w"] else 0
    out = b""
    for s, ns, payload, is_last in merged_model(srcs):
        ff = b""
        if o["file"]:
            nm = names[s.sid]
            ff = (nm + " " * max(0, width - dwidth(nm))).encode() + psep
        df = b""
        if o["dt"]:
            df = strftime(ns, off, fmt).encode() + psep
        if s.kind == "text":
            body = payload
            supplied = False
            if is_last and not s.trailing_newline:
                stored = gen.log_bytes([s.msgs[-1]], False)
                if not stored.endswith(b"\n"):
                    # the file's last byte is not a newline: s4 supplies one, after the separator
                    body = body[:-1]
                    supplied = True
            lines = body.split(b"\n")
            segs = [l + b"\n" for l in lines[:-1]] + ([lines[-1]] if lines[-1] else [])
            out += b"".join(ff + df + l for l in segs) + sep + (b"\n" if supplied else b"")
        else:
            line = undecorated_fs_lines[s.sid].pop(0)
            out += ff + df + line + sep
    return out


def job(args):
    s4, d, srcs, o = args
    files = [s.arg for s in srcs]
    env = core.base_env(tz=o["tzenv"][0])
    und = core.run([s4, "--color", "never", "-t=+00:00"] + files, env, cwd=d, timeout=120)
    dn = core.run([s4] + argv_of(o, "never") + files, env, cwd=d, timeout=120)
    dc = core.run([s4] + argv_of(o, "always") + files, env, cwd=d, timeout=120)
    per = {}
    for s in srcs:
        if s.kind == "fixedstruct":
            r = core.run([s4, "--color", "never", "-t=+00:00", s.arg], env, cwd=d, timeout=120)
            per[s.sid] = r.out
    return und, dn, dc, per


def run(ctx):
    s4 = core.build_s4()
    rng = ctx.rng
    ncases = ctx.pick(500, 8000)
    ctx.rule = ("1..4 sources (text with multi-line messages and sub-millisecond instants, fixed-struct layouts) with names of "
                "differing and non-ASCII display widths x {none,-n,-p} x -w x {none,-u,-l,-z TZ} x 7 -d formats x 5 prepend separators "
                "x 7 --separator values (escapes) x colour never/always x 4 local zones; distinct = option tuple x source kinds")
    ctx.assumptions = ["the strftime subset used is re-implemented here independently (vlib/gen.civil)",
                       "display width: East Asian wide/fullwidth = 2 columns, combining = 0"]
    jobs, meta = [], []
    for cid in range(ncases):
        d, srcs = make_case(ctx, rng, cid)
        o = s4_options(rng)
        jobs.append((s4, d, srcs, o))
        meta.append((d, srcs, o))
    run_other_kinds(ctx, s4)
    for (d, srcs, o), (und, dn, dc, per) in zip(meta, core.pmap(job, jobs)):
        if und.timed_out or dn.timed_out or dc.timed_out:
            ctx.inconc("watchdog")
            continue
        kinds = tuple(sorted({s.kind for s in srcs}))
        key = (o["file"], o["w"], o["dt"], o["fmt"], o["psep"], o["sep"][0], kinds)
        ctx.evaluated(2, key)
        ctx.count("option file:%s w:%s" % (o["file"], o["w"]))
        ctx.count("option dt:%s" % o["dt"])
        for k in kinds:
            ctx.count("kind:%s" % k)
        info = {"argv_never": dn.argv, "argv_always": dc.argv, "env": dn.env, "cwd": "case", "options": {k: (v if k != "sep" else v[0]) for k, v in o.items()},
                "stderr": dn.err[-300:]}
        # undecorated fixed-struct lines (reference for the record text; C08 checks their content)
        fs_lines, nul_seen = {}, False
        for s in srcs:
            if s.kind == "fixedstruct":
                raw = per[s.sid]
                if b"\n\x00" in raw:
                    nul_seen = True
                raw = raw.replace(b"\n\x00", b"\n")
                fs_lines[s.sid] = [l + b"\n" for l in raw.split(b"\n")[:-1]]
                if len(fs_lines[s.sid]) != len(s.msgs):
                    fs_lines = None
                    break
        if fs_lines is None:
            ctx.inconc("fixed-struct reference run did not print one line per record (C08's subject)")
            continue
        # 1. colour only adds SGR sequences
        stripped = SGR.sub(b"", dc.out)
        if stripped != dn.out:
            ctx.violation("C13|colour-changes-bytes|%s" % "+".join(kinds), "--color always minus SGR sequences differs from --color never",
                          src_dir=d, files={"never.stdout": dn.out, "always.stdout": dc.out}, info=info)
        elif dc.out and dc.out == dn.out:
            ctx.violation("C13|colour-always-has-no-escapes", "--color always printed no SGR sequence", src_dir=d, info=info)
        # 2. decorated == prediction
        try:
            exp = predict(srcs, o, {k: list(v) for k, v in fs_lines.items()})
        except IndexError:
            ctx.inconc("prediction failed")
            continue
        got = dn.out
        if nul_seen and b"\n\x00" in got:
            # known deviation: every fixed-struct record is followed by a NUL byte; peel it off and keep checking
            ctx.violation("C13|fixedstruct|nul-byte-after-each-record", "a NUL byte follows the newline of every fixed-struct record", src_dir=d, info=info)
            got = got.replace(b"\n\x00", b"\n")
            # text messages may themselves hold a NUL at the start of a continuation line: peel those from the prediction too
            exp = exp.replace(b"\n\x00", b"\n")
            if o["sep"][1] == b"\x00":
                # separator NUL and the stray NUL are indistinguishable here
                continue
        if got == exp:
            if len(ctx.samples) < 5 and o["file"] and o["dt"] and len(srcs) > 1:
                ctx.sample({"argv": dn.argv[1:], "TZ": o["tzenv"][0], "stdout_head": dn.out[:240]})
            continue
        # classify the mismatch
        sig = "C13|decorated-output-differs"
        g_lines, e_lines = got.split(b"\n"), exp.split(b"\n")
        k = next((i for i, (a, b) in enumerate(zip(g_lines, e_lines)) if a != b), min(len(g_lines), len(e_lines)))
        gl = g_lines[k] if k < len(g_lines) else b""
        el = e_lines[k] if k < len(e_lines) else b""
        kind_at = "?"
        if o["file"] and o["dt"]:
            psep = (o["psep"] if o["psep"] is not None else ":").encode()
            parts_e = el.split(psep)
            if len(parts_e) >= 2 and gl.startswith(parts_e[1] + psep + parts_e[0] + psep) and parts_e[0] != parts_e[1]:
                sig = "C13|field-order-datetime-before-file"
        if sig == "C13|decorated-output-differs":
            if len(gl) == len(el) and o["dt"]:
                sig = "C13|datetime-field-value-differs"
            elif o["w"] and gl.replace(b" ", b"") == el.replace(b" ", b""):
                sig = "C13|name-padding-differs"
            elif o["sep"][1] and got.replace(o["sep"][1], b"") == exp.replace(o["sep"][1], b""):
                sig = "C13|separator-placement-differs"
        for s in srcs:
            nm = os.path.basename(s.arg).encode()
            if nm in el or (s.kind == "fixedstruct" and b"ut_" in el or b"ll_" in el or b"ac_" in el):
                kind_at = s.kind
                break
        sig += "|" + kind_at
        if sig.startswith("C13|name-padding-differs") and any(dwidth(os.path.basename(s.arg)) != len(os.path.basename(s.arg)) for s in srcs):
            sig += "|wide-characters-in-a-name"
        ctx.violation(sig, "line %d: got %r want %r" % (k, gl[:160], el[:160]), src_dir=d,
                      files={"expected.stdout": exp, "observed.stdout": dn.out, "undecorated.stdout": und.out}, info=info)


# --------------------------------------------------------------------------
# evtx / journal sources: strict line parser (no message model for these kinds)

def fmt_regex(fmt):
    """regex (bytes) matching the output of `fmt` for any instant"""
    out = b""
    i = 0
    m = {"Y": rb"\d{4}", "m": rb"\d\d", "d": rb"\d\d", "e": rb"[ \d]\d", "H": rb"\d\d", "M": rb"\d\d", "S": rb"\d\d", "z": rb"[+-]\d{4}", "s": rb"-?\d+",
         "j": rb"\d{3}", "a": rb"[A-Z][a-z]{2}", "b": rb"[A-Z][a-z]{2}", "%": rb"%"}
    while i < len(fmt):
        c = fmt[i]
        if c != "%":
            out += re.escape(c.encode())
            i += 1
        elif fmt[i + 1] == ".":
            out += rb"\.\d{" + fmt[i + 2].encode() + rb"}"
            i += 4
        elif fmt[i + 1] == ":":
            out += rb"[+-]\d\d:\d\d"
            i += 3
        else:
            out += m[fmt[i + 1]]
            i += 2
    return out


def other_job(args):
    s4, files, o, cwd = args
    env = core.base_env(tz=o["tzenv"][0], tmpdir=cwd)
    jo = ["--journal-output", o["jout"]] if o.get("jout") else []
    und = core.run([s4, "--color", "never", "-t=+00:00"] + jo + files, env, cwd=cwd, timeout=300)
    dn = core.run([s4] + argv_of(o, "never") + jo + ["--summary"] + files, env, cwd=cwd, timeout=300)
    dc = core.run([s4] + argv_of(o, "always") + jo + files, env, cwd=cwd, timeout=300)
    return und, dn, dc


def run_other_kinds(ctx, s4):
    from checks import c10, c19
    from vlib import fixtures
    rng = ctx.rng
    h = core.build_harness()
    d = ctx.casedir("other")
    pool = []
    for p in fixtures.evtxs():
        if "kernelpnp" in p:
            q = os.path.join(d, "PnP Configuration.evtx")
            gen.write(q, open(p, "rb").read())
            recs, _ = c10.dump(h, q)
            keyed = sorted(((t, i) for i, (rid, t) in enumerate(recs)))
            pool.append(("evtx", q, [t for t, i in keyed]))
    for p in fixtures.journals():
        if os.path.getsize(p) < 3_000_000 or "ubuntu22" in p:
            nm = {"ubuntu16.journal": "sys.journal", "ubuntu22x3.journal": "user-日本.journal"}.get(os.path.basename(p), os.path.basename(p))
            q = os.path.join(d, nm)
            gen.write(q, open(p, "rb").read())
            pool.append(("journal", q, None))
    jobs, meta = [], []
    for cid in range(ctx.pick(120, 900)):
        o = s4_options(rng)
        # separators without a newline for these kinds (message boundaries are not known to the parser)
        o["sep"] = rng.choice([s for s in SEP_CHOICES if b"\n" not in s[1] and s[1] != b"\x00"])
        srcs = rng.sample(pool, rng.choice([1, 1, 2]))
        if any(x[0] == "journal" for x in srcs):
            # every rendering of a journal entry goes through the same eight print variants; export and verbose entries hold
            # empty and indented lines
            o["jout"] = rng.choice([None, "short", "short-precise", "short-iso", "short-iso-precise", "short-full", "short-monotonic", "short-unix",
                                    "verbose", "export", "export", "cat"])
        files = [x[1] if rng.random() < 0.6 else os.path.relpath(x[1], d) for x in srcs]
        jobs.append((s4, files, o, d))
        meta.append((srcs, files, o))
    for (srcs, files, o), (und, dn, dc) in zip(meta, core.pmap(other_job, jobs, workers=8)):
        if und.timed_out or dn.timed_out or dc.timed_out:
            ctx.inconc("watchdog")
            continue
        kinds = tuple(sorted({x[0] for x in srcs}))
        ctx.evaluated(2, (o["file"], o["w"], o["dt"], o["fmt"], o["psep"], o["sep"][0], kinds, o.get("jout")))
        for k in kinds:
            ctx.count("kind:%s" % k)
        if o.get("jout"):
            ctx.count("journal rendering:%s" % o["jout"])
        info = {"argv_never": dn.argv, "env": dn.env, "cwd": d, "stderr_tail": dn.err[-200:]}
        if SGR.sub(b"", dc.out) != dn.out:
            ctx.violation("C13|colour-changes-bytes|%s" % "+".join(kinds), "--color always minus SGR sequences differs from --color never", info=info)
            continue
        psep = (o["psep"] if o["psep"] is not None else ":").encode()
        sep = o["sep"][1]
        names = [os.path.basename(f) if o["file"] == "-n" else f for f in files]
        width = max(dwidth(n) for n in names) if o["w"] else 0
        ffs = [(n + " " * max(0, width - dwidth(n))).encode() + psep for n in names] if o["file"] else [b""]
        dre = re.compile(fmt_regex(o["fmt"] or DEFAULT_FMT) + re.escape(psep)) if o["dt"] else None
        off = {"-u": 0, "-l": o["tzenv"][1], "-z": o["z"], None: None}[o["dt"]]
        body = dn.out
        rest = b""
        nsep = 0
        pos = 0
        ok = True
        evtx_k = 0
        evtx_ts = [x[2] for x in srcs if x[0] == "evtx"]
        why = ""
        while pos < len(body):
            if sep and body.startswith(sep, pos):
                pos += len(sep)
                nsep += 1
                if pos >= len(body):
                    break
            ff = next((f for f in ffs if body.startswith(f, pos)), None)
            if ff is None:
                ok, why = False, "line does not start with the file field: %r" % body[pos:pos + 80]
                break
            which = ffs.index(ff) if o["file"] else None
            pos += len(ff)
            dtxt = None
            if dre is not None:
                m = dre.match(body, pos)
                if not m:
                    ok, why = False, "no datetime field after the file field: %r" % body[pos:pos + 60]
                    break
                dtxt = m.group(0)
                pos = m.end()
            nl = body.find(b"\n", pos)
            line = body[pos:nl + 1] if nl >= 0 else body[pos:]
            if dtxt is not None and line.startswith(b"<?xml") and len(evtx_ts) == 1 and len(srcs) == 1:
                # first line of evtx record #k in print order: its instant comes from the independent dump
                want = strftime(evtx_ts[0][evtx_k], off, o["fmt"] or DEFAULT_FMT).encode() + psep
                if dtxt != want:
                    ok, why = False, "evtx record #%d: datetime field %r, independent dump says %r" % (evtx_k, dtxt, want)
                    break
                evtx_k += 1
            rest += line
            pos += len(line)
        if not ok:
            ctx.violation("C13|strict-parse-failed|%s" % "+".join(kinds), why, files={"decorated.stdout": dn.out[:200000]}, info=info)
            continue
        if rest != und.out:
            ctx.violation("C13|remainder-differs-from-undecorated|%s" % "+".join(kinds), "after deleting file field, datetime field and separators %d bytes remain, undecorated run printed %d" % (
                len(rest), len(und.out)), files={"decorated.stdout": dn.out[:200000], "undecorated.stdout": und.out[:200000]}, info=info)
            continue
        files_, prog = c19.parse_summary(dn.err)
        nmsg = (c19.to_int(prog.get("Printed evtx events")) or 0) + (c19.to_int(prog.get("Printed journal events")) or 0)
        if sep and nsep != nmsg:
            ctx.violation("C13|separator-count|%s" % "+".join(kinds), "%d separators for %d printed messages" % (nsep, nmsg), info=info)
        elif len(ctx.samples) < 7 and o["file"] and o["dt"]:
            ctx.sample({"kinds": kinds, "argv": dn.argv[1:], "messages": nmsg, "separators_seen": nsep, "stdout_head": dn.out[:160]})
