"""C09 - journal files: every entry once, in journal order, fields intact.

Oracle: `journalctl --file F` (an independent reader). From `-o export` every
entry's cursor, receive time (__REALTIME_TIMESTAMP) and exact field bytes are
parsed; s4's `--journal-output export` must yield the same cursor sequence and
the same field multiset per entry, restricted to the window on the receive time;
`cat` must print exactly the MESSAGE bytes journalctl prints; the other eight
renderings must print the same number of entries in the same order (their
timestamps may legitimately differ from journalctl, README / Issue #101, so for
them only count and the non-timestamp remainder are compared); compressed and
archived forms must print the same bytes as the plain file.
No journal writer exists offline: inputs are the shipped journals.
"""
import os
import re
import struct
import subprocess

from checks import c19
from vlib import core, fixtures, gen

LEVEL = "exploration"

RENDERINGS = ["short", "short-precise", "short-iso", "short-iso-precise", "short-full", "short-monotonic", "short-unix", "verbose", "export", "cat"]


def parse_export(data):
    """journal export format -> list of entries; an entry is a list of (name, value bytes) in order"""
    entries, cur = [], []
    i, n = 0, len(data)
    while i < n:
        j = data.find(b"\n", i)
        if j < 0:
            j = n
        line = data[i:j]
        if not line:
            if cur:
                entries.append(cur)
                cur = []
            i = j + 1
            continue
        eq = line.find(b"=")
        if eq >= 0:
            cur.append((line[:eq], line[eq + 1:]))
            i = j + 1
        else:
            # binary field: NAME \n u64le length, bytes, \n
            name = line
            (ln,) = struct.unpack_from("<Q", data, j + 1)
            val = data[j + 9:j + 9 + ln]
            cur.append((name, val))
            i = j + 9 + ln + 1
    if cur:
        entries.append(cur)
    return entries


def parse_export_s4(data):
    """tolerant parser for s4's export output: entries start at a `__CURSOR=` line; a line that is empty or has no
    NAME= prefix continues the previous field's value (s4 prints values with embedded newlines raw)"""
    entries, cur = [], None
    namere = re.compile(rb"^[A-Z_][A-Z0-9_]*=")
    lines = data.split(b"\n")
    if lines and lines[-1] == b"":
        lines.pop()
    for ln in lines:
        if ln.startswith(b"__CURSOR="):
            if cur is not None:
                entries.append(cur)
            cur = []
        if cur is None:
            cur = []
        if namere.match(ln):
            eq = ln.find(b"=")
            cur.append([ln[:eq], ln[eq + 1:]])
        elif cur:
            cur[-1][1] += b"\n" + ln
    if cur is not None:
        entries.append(cur)
    out = []
    for e in entries:
        # the blank line that ends an entry was glued to the last value: remove it
        if e and e[-1][1].endswith(b"\n"):
            e[-1][1] = e[-1][1][:-1]
        out.append([(k, v) for k, v in e])
    return out


def field(entry, name):
    for k, v in entry:
        if k == name:
            return v
    return None


def journalctl(path, fmt):
    r = subprocess.run(["journalctl", "--file", path, "-o", fmt, "--no-pager", "--utc", "--all"], capture_output=True, env={"TZ": "UTC", "PATH": "/usr/bin:/bin", "LC_ALL": "C"})
    if r.returncode != 0:
        raise core.HarnessError("journalctl failed on %s: %r" % (path, r.stderr[:200]))
    return r.stdout


def bound_str(us, rng, tz_min=0):
    ns = us * 1000
    y, mo, d, hh, mi, s, n, _ = gen.civil(ns, tz_min)
    return "%04d-%02d-%02dT%02d:%02d:%02d.%06d%s" % (y, mo, d, hh, mi, s, n // 1000, gen.off_str(tz_min))


def job(args):
    s4, path, fmt, wargs, tz, tmpdir = args
    return core.run([s4, "--color", "never", "-t=" + gen.off_str(tz), "--journal-output", fmt] + wargs + ["--summary", path], core.base_env(tmpdir=tmpdir), timeout=300)


_TS_PATTERNS = [
    re.compile(rb"^[A-Z][a-z]{2} [ \d]\d \d\d:\d\d:\d\d(\.\d+)? "),                                  # short, short-precise
    re.compile(rb"^\d{4}-\d\d-\d\d[T ]\d\d:\d\d:\d\d([.,]\d+)?( ?[+-]\d\d:?\d\d)? "),           # short-iso(-precise), either spelling
    re.compile(rb"^[A-Z][a-z]{2} \d{4}-\d\d-\d\d \d\d:\d\d:\d\d(\.\d+)? \S+ "),                   # short-full
    re.compile(rb"^\d+\.\d+ "),                                                                     # short-unix
    re.compile(rb"^\[ *\d+\.\d+\] "),                                                               # short-monotonic
]


def strip_ts(fmt, line):
    """remainder of a short* line after its timestamp (the two programs may spell the timestamp differently)"""
    for p in _TS_PATTERNS:
        m = p.match(line)
        if m:
            return line[m.end():]
    return None


def run(ctx):
    s4 = core.build_s4()
    rng = ctx.rng
    d = ctx.casedir("journal")
    ctx.rule = ("every recoverable shipped journal x 10 renderings x windows (none; A and/or B exactly on an entry's microsecond, +-1 us, between, "
                "A=B, empty) x -t values (bounds given with the matching explicit offset) x plain/gz/bz2/xz/lz4/tar; reference = journalctl --file; "
                "distinct = (journal, rendering, window class, container, -t)")
    ctx.assumptions = ["journalctl (systemd 252) reads the shipped journals correctly", "no synthetic journals can be produced offline: bounded by 4 input files"]
    jobs, meta = [], []
    refs = {}
    for src in fixtures.journals():
        name = os.path.basename(src)
        exp = parse_export(journalctl(src, "export"))
        if not exp:
            raise core.HarnessError("journalctl read no entries from %s" % src)
        cat_ref = journalctl(src, "cat")
        # self-check of the derivation used for windowed cat runs
        derived = b"".join(field(e, b"MESSAGE") + b"\n" for e in exp if field(e, b"MESSAGE") is not None)
        refs[name] = dict(exp=exp, cat_ok=(derived == cat_ref), cat=cat_ref,
                          shorts={f: journalctl(src, f) for f in RENDERINGS if f.startswith("short")})
        ctx.count("journal entries in reference:%s" % name, len(exp))
        rts = [int(field(e, b"__REALTIME_TIMESTAMP")) for e in exp]
        data = open(src, "rb").read()
        conts = [None] + rng.sample(["gz", "bz2", "xz", "lz4", "tar"], ctx.pick(3, 5))
        nwin = ctx.pick(24, 80)
        for fmt in RENDERINGS:
            wins = [(None, None, "none")]
            for _ in range(nwin if fmt in ("export", "cat", "short") else ctx.pick(8, 30)):
                k = rng.choice(["on", "on", "a=b", "minus1us", "plus1us", "between", "empty", "a-only-on", "b-only-on", "a-before-1970", "b-before-1970"])
                x, y = sorted([rng.choice(rts), rng.choice(rts)])
                if k == "a-before-1970":
                    # a bound before the Unix Epoch lies before every entry
                    wins.append((-rng.choice([1, 86_400_000_000, 40 * 365 * 86_400_000_000]), rng.choice([None, y]), k))
                    continue
                if k == "b-before-1970":
                    wins.append((None, -rng.choice([1, 86_400_000_000, 40 * 365 * 86_400_000_000]), k))
                    continue
                if k == "a=b":
                    y = x
                elif k == "minus1us":
                    x, y = x - 1, y - 1
                elif k == "plus1us":
                    x, y = x + 1, y + 1
                elif k == "between":
                    i = rng.randrange(len(rts) - 1) if len(rts) > 1 else 0
                    srt = sorted(rts)
                    x = (srt[i] + srt[min(i + 1, len(srt) - 1)]) // 2
                    y = max(x, y)
                elif k == "empty":
                    x, y = max(rts) + 1_000_000, max(rts) + 2_000_000
                if k == "a-only-on":
                    wins.append((x, None, k))
                elif k == "b-only-on":
                    wins.append((None, y, k))
                else:
                    wins.append((x, y, k))
            for cont in (conts if fmt in ("export", "cat", "short", "verbose") else [None]):
                if cont is None:
                    path = src
                else:
                    path = os.path.join(d, name + "." + cont)
                    if not os.path.exists(path):
                        if cont == "tar":
                            gen.write(path, gen.tar_bytes([("var/log/journal/" + name, data, 1_600_000_000)]))
                        else:
                            kw = {"split": 65536, "stored": True} if cont == "lz4" else {}
                            gen.write(path, gen.contain(data, cont, **kw))
                for a, b, wk in (wins if cont is None else wins[:2]):
                    tz = rng.choice([0, 0, 330, -480])
                    wargs = (["-a", bound_str(a, rng, tz)] if a is not None else []) + (["-b", bound_str(b, rng, tz)] if b is not None else [])
                    jobs.append((s4, path, fmt, wargs, tz, d))
                    meta.append((name, fmt, cont, a, b, wk, tz))
    plain = {}
    for (name, fmt, cont, a, b, wk, tz), r in zip(meta, core.pmap(job, jobs)):
        if r.timed_out:
            ctx.inconc("watchdog")
            continue
        ref = refs[name]
        ctx.evaluated(1, (name, fmt, wk, cont, tz))
        ctx.count("rendering:%s" % fmt)
        ctx.count("window:%s" % wk)
        ctx.count("container:%s" % cont)
        info = {"argv": r.argv, "env": r.env, "stderr_tail": r.err[-300:], "journal": name}
        if r.rc not in (0, 1):
            ctx.violation("C09|exit|rc=%s" % r.rc, "exit status %s" % r.rc, info=info)
            continue
        sel = [e for e in ref["exp"] if (a is None or int(field(e, b"__REALTIME_TIMESTAMP")) >= a) and (b is None or int(field(e, b"__REALTIME_TIMESTAMP")) <= b)]
        if cont is None:
            plain[(name, fmt, a, b, tz)] = r.out
        elif (name, fmt, a, b, tz) in plain and plain[(name, fmt, a, b, tz)] != r.out:
            ctx.violation("C09|container-differs|%s|%s" % (cont, fmt), "%s in %s prints %d bytes, plain prints %d" % (name, cont, len(r.out), len(plain[(name, fmt, a, b, tz)])), info=info)
            continue

        def window_sig(got_cursors):
            """classify a selection mismatch"""
            want_c = [field(e, b"__CURSOR") for e in sel]
            gs, ws = set(got_cursors), set(want_c)
            bye = {field(e, b"__CURSOR"): e for e in ref["exp"]}
            diff = (gs ^ ws)
            def src_ts(e):
                v = field(e, b"_SOURCE_REALTIME_TIMESTAMP")
                return int(v) if v and v.isdigit() else None
            # entry decided by its _SOURCE_REALTIME_TIMESTAMP instead of the receive time?
            if diff and all(src_ts(bye[c]) is not None and src_ts(bye[c]) != int(field(bye[c], b"__REALTIME_TIMESTAMP")) for c in diff if c in bye):
                def in_win(t):
                    return (a is None or t >= a) and (b is None or t <= b)
                if all((c in gs) == in_win(src_ts(bye[c])) for c in diff if c in bye):
                    return "C09|window-applied-to-source-realtime-timestamp-not-receive-time"
            missing = [c for c in want_c if c not in gs]
            extra = [c for c in got_cursors if c not in ws]
            if missing and not extra:
                t = int(field(bye[missing[0]], b"__REALTIME_TIMESTAMP"))
                edge = "t==B" if t == b else ("t==A" if t == a else "interior")
                return "C09|entries-missing|%s|window-%s" % (edge, wk)
            if extra and not missing:
                return "C09|entries-outside-window-printed|window-%s" % wk
            return "C09|selection-differs|window-%s" % wk

        if fmt == "export":
            got = parse_export_s4(r.out)
            if any(b"\n" in v for e in sel for k, v in e):
                # journalctl writes such values length-prefixed (binary-safe form of the export format)
                strict = parse_export(r.out) if r.out else []
                if [field(e, b"__CURSOR") for e in strict] != [field(e, b"__CURSOR") for e in got]:
                    ctx.violation("C09|export-value-with-newline-not-length-prefixed", "a field value containing a newline is printed raw; the export stream no longer "
                                  "parses as one record per entry (journalctl writes NAME, newline, 64-bit length, bytes)", info=info)
            gc = [field(e, b"__CURSOR") for e in got]
            wc = [field(e, b"__CURSOR") for e in sel]
            if gc != wc:
                if sorted(gc) == sorted(wc):
                    ctx.violation("C09|order-differs|export", "entries printed in another order than journalctl enumerates", info=info)
                else:
                    ctx.violation(window_sig(gc), "export: %d entries printed, journalctl has %d in the window [%s, %s]" % (len(gc), len(wc), a, b), info=info)
                continue
            for ge, we in zip(got, sel):
                if sorted(ge) != sorted(we):
                    gk, wk_ = {k for k, _ in ge}, {k for k, _ in we}
                    if wk_ - gk:
                        sig = "C09|export-field-missing|%s" % sorted(wk_ - gk)[0].decode("latin-1")
                    elif gk - wk_:
                        sig = "C09|export-field-extra|%s" % sorted(gk - wk_)[0].decode("latin-1")
                    else:
                        sig = "C09|export-field-value-differs|%s" % [k for k, v in we if (k, v) not in ge][0].decode("latin-1")
                    ctx.violation(sig, "entry %r: fields differ from journalctl's" % field(we, b"__CURSOR")[:60], info=info)
                    break
            else:
                if len(ctx.samples) < 4 and wk != "none" and sel:
                    ctx.sample({"journal": name, "rendering": fmt, "window": wk, "argv": r.argv[1:-1], "entries": len(sel), "fields_of_first": len(sel[0])})
            continue
        files, prog = c19.parse_summary(r.err)
        printed = c19.to_int(prog.get("Printed journal events"))
        if fmt == "cat":
            if not ref["cat_ok"]:
                ctx.inconc("cat derivation from export does not reproduce journalctl -o cat for %s" % name)
                continue
            want = b"".join(field(e, b"MESSAGE") + b"\n" for e in sel if field(e, b"MESSAGE") is not None)
            if r.out != want:
                if printed is not None and printed != len(sel):
                    # selection problem: recover cursors by re-running is not possible for cat; classify by count
                    ctx.violation("C09|cat-entry-count|window-%s" % wk, "cat printed %s entries, journalctl has %d in the window" % (printed, len(sel)), info=info,
                                  files={"observed.stdout": r.out[:100000], "expected.stdout": want[:100000]})
                else:
                    ctx.violation("C09|cat-text-differs", "cat text differs from the MESSAGE bytes journalctl reports (%d vs %d bytes)" % (len(r.out), len(want)), info=info,
                                  files={"observed.stdout": r.out[:100000], "expected.stdout": want[:100000]})
            continue
        # the other renderings: count, and for unwindowed short* the non-timestamp remainder
        if printed != len(sel):
            ctx.violation("C09|%s-entry-count|window-%s" % (fmt, wk), "%s printed %s entries, journalctl has %d in the window [%s, %s]" % (fmt, printed, len(sel), a, b), info=info)
            continue
        if fmt.startswith("short") and a is None and b is None:
            refl = ref["shorts"][fmt].split(b"\n")
            gotl = r.out.split(b"\n")
            # timestamps may differ (Issue #101; journalctl also prefers _SOURCE_MONOTONIC_TIMESTAMP) and journalctl indents the
            # continuation lines of multi-line messages by the width of its prefix: compare the text without either
            # The property asks of these renderings that every entry appears once and in order; the comparison is therefore
            # on the message text (after 'host identifier[pid]: '), not on how the identifier is spelled (journalctl prints
            # 'unknown' for an entry without one).
            def norm(lines):
                out = []
                for l in lines:
                    t = strip_ts(fmt, l)
                    if t is None:
                        out.append(l.lstrip())
                    else:
                        out.append(t.split(b": ", 1)[1] if b": " in t else t)
                return out
            ok = norm(refl) == norm(gotl)
            # the process id inside 'identifier[pid]:' is a stored field (_PID, else SYSLOG_PID): where both programs print one for
            # the same line, it is the same one
            def pids(lines):
                out = []
                for l in lines:
                    t = strip_ts(fmt, l)
                    m = re.match(rb"^\S+ [^\[\]:]+\[(\d+)\]: ", t) if t is not None else None
                    out.append(m.group(1) if m else None)
                return out
            if ok:
                pr, pg = pids(refl), pids(gotl)
                bad = [(i, x, y) for i, (x, y) in enumerate(zip(pr, pg)) if x is not None and y is not None and x != y]
                ctx.count("short renderings: [pid] fields compared with journalctl", sum(1 for x, y in zip(pr, pg) if x is not None and y is not None))
                if bad:
                    ctx.violation("C09|short-pid-differs", "%s: line %d has [%s], journalctl prints [%s] (%d lines differ)" % (
                        fmt, bad[0][0], bad[0][2].decode(), bad[0][1].decode(), len(bad)), info=info,
                        files={"observed.stdout": r.out[:200000], "journalctl.stdout": ref["shorts"][fmt][:200000]})
            if not ok:
                ctx.violation("C09|%s-text-differs" % fmt, "%s output differs from journalctl's beyond the timestamps" % fmt, info=info,
                              files={"observed.stdout": r.out[:200000], "journalctl.stdout": ref["shorts"][fmt][:200000]})
