"""C18 - no temporary files are left behind, even on Ctrl-C.

Oracle: a private TMPDIR per run must be empty once the process has exited
(waitpid), after a normal run and after SIGINT. Signal instants are chosen both
at random and *by phase*: the hooks (src/verif.rs) log ntf.created /
ntf.registered / ntf.extracted / print events and can hold a worker at such a
point (S4_VERIF_PLAN), so SIGINT is delivered while a worker provably sits
between creating a temporary file and registering it, during extraction, after
extraction, or while printing. Promptness is decided on logical order, not on a
stopwatch: a worker is planned to stay silent for 8 s; the run must end well
before that worker could have made progress (< 3 s after the signal = prompt;
>= 7 s = the interrupt waited for the worker; in between = inconclusive).
"""
import os
import signal
import subprocess
import time

from vlib import core, fixtures, gen

LEVEL = "fault_enumeration"

HOLD_US = 8_000_000


def make_inputs(ctx, rng, d):
    """compressed / archived journal and evtx files"""
    out = []
    srcs = [("evtx", p) for p in fixtures.evtxs() if "kernelpnp" in p] + [("journal", p) for p in fixtures.journals() if os.path.getsize(p) < 9_000_000]
    for kind, p in srcs:
        data = open(p, "rb").read()
        base = os.path.basename(p)
        for c in ("gz", "bz2", "xz", "lz4", "tar"):
            q = os.path.join(d, base + "." + c)
            if c == "tar":
                gen.write(q, gen.tar_bytes([("x/" + base, data, 1_600_000_000)]))
            else:
                kw = {"split": 65536, "stored": True} if c == "lz4" else ({"level": 1} if c in ("gz", "bz2") else {"preset": 0})
                gen.write(q, gen.contain(data, c, **kw))
            out.append((kind, c, q))
    return out


def leftovers(tmpdir):
    try:
        return sorted(os.listdir(tmpdir))
    except FileNotFoundError:
        return []


def wait_for_event(trace, event, timeout):
    t0 = time.monotonic()
    while time.monotonic() - t0 < timeout:
        try:
            with open(trace, "rb") as f:
                if ("\t" + event + "\t").encode() in f.read():
                    return True
        except FileNotFoundError:
            pass
        time.sleep(0.01)
    return False


def one(job):
    """job: dict(s4, files, extra_env, mode, sig_after_event, sig_delay, tmp, trace)"""
    s4 = job["s4"]
    tmp = job["tmp"]
    os.makedirs(tmp, exist_ok=True)
    env = core.base_env(tmpdir=tmp, extra=dict(job["extra_env"], S4_VERIF_TRACE=job["trace"]))
    t0 = time.monotonic()
    p = subprocess.Popen([s4, "--color", "never", "-t=+00:00"] + job["files"], env=env, stdin=subprocess.DEVNULL, stdout=subprocess.DEVNULL,
                         stderr=subprocess.PIPE, start_new_session=True)
    res = dict(job=job, sent=False, t_sig=None, t_exit=None, rc=None, timed_out=False, event_seen=None)
    try:
        if job["mode"] == "normal":
            _, err = p.communicate(timeout=180)
        else:
            if job["sig_after_event"]:
                res["event_seen"] = wait_for_event(job["trace"], job["sig_after_event"], 30)
            time.sleep(job["sig_delay"])
            if p.poll() is None:
                os.kill(p.pid, signal.SIGINT)
                res["sent"] = True
                res["t_sig"] = time.monotonic() - t0
            _, err = p.communicate(timeout=60)
    except subprocess.TimeoutExpired:
        res["timed_out"] = True
        try:
            os.killpg(p.pid, signal.SIGKILL)
        except ProcessLookupError:
            pass
        _, err = p.communicate()
    res["t_exit"] = time.monotonic() - t0
    res["rc"] = p.returncode
    res["err"] = err[-300:]
    res["left"] = leftovers(tmp)
    try:
        res["trace_tail"] = open(job["trace"], "rb").read()[-1500:].decode("utf-8", "replace")
    except FileNotFoundError:
        res["trace_tail"] = ""
    return res


def run(ctx):
    s4 = core.build_s4()
    rng = ctx.rng
    d = ctx.casedir("in")
    inputs = make_inputs(ctx, rng, d)
    ctx.rule = ("1..6 compressed / archived journal and evtx sources per run; normal runs under random and planned schedules (incl. a delay after each "
                "worker's last send); SIGINT at random instants and at hook-defined phases (before anything, temp file created but not registered, "
                "registered/extracting, extracted, printing); planned-silence promptness test; distinct = (mode/phase, number of sources, kinds, "
                "containers, outcome)")
    ctx.assumptions = ["SIGINT is delivered to the process as a terminal Ctrl-C would (kill(pid, SIGINT))",
                       "promptness thresholds: < 3 s prompt, >= 7 s waited for the planned 8 s silence, else inconclusive"]
    jobs = []
    n = 0

    def add(mode, files, extra_env=None, ev=None, delay=0.0, phase=None):
        nonlocal n
        wd = os.path.join(ctx.work, "r%05d" % n)
        n += 1
        jobs.append(dict(s4=s4, files=[f[2] for f in files], kinds=tuple(sorted({f[0] for f in files})), conts=tuple(sorted({f[1] for f in files})),
                         extra_env=extra_env or {}, mode=mode, sig_after_event=ev, sig_delay=delay, tmp=os.path.join(wd, "tmp"), trace=os.path.join(wd, "trace"),
                         phase=phase or mode))

    def pick_files():
        return rng.sample(inputs, rng.choice([1, 1, 2, 3, 4, 6]))

    # normal runs
    for _ in range(ctx.pick(120, 1500)):
        k = rng.random()
        if k < 0.3:
            env = {}
        elif k < 0.65:
            env = {"S4_VERIF_SCHED": "seed=%d,p=%s,max_us=%d" % (rng.randint(0, 1 << 30), rng.choice(["0.1", "0.5", "1.0"]), rng.choice([200, 2000, 20000]))}
        else:
            # main can return while a worker still holds its NamedTempFile: widen that window
            env = {"S4_VERIF_PLAN": "sent.FileSummary:*:*=%d" % rng.choice([2000, 20000, 100000])}
        add("normal", pick_files(), env, phase="normal:" + ("plain" if not env else list(env)[0][9:].lower()))
    # SIGINT at random instants
    for _ in range(ctx.pick(120, 1500)):
        add("sigint", pick_files(), {}, None, rng.choice([0.0, 0.002, 0.005, 0.01, 0.02, 0.05, 0.1, 0.2, 0.4]), phase="sigint:random-instant")
    # SIGINT at phases (the worker is held at the hook point for 1.5 s; the signal lands 0.3 s into the hold)
    for _ in range(ctx.pick(15, 150)):
        for point, phase in (("ntf.created", "sigint:created-not-registered"), ("ntf.registered", "sigint:registered-extracting"),
                             ("ntf.extracted", "sigint:extracted")):
            add("sigint", pick_files(), {"S4_VERIF_PLAN": "%s:*:0=1500000" % point}, point, 0.3, phase=phase)
        add("sigint", pick_files(), {"S4_VERIF_PLAN": "coord.print:-1:*=300000"}, "print", 0.1, phase="sigint:printing")
    # a worker that starts only after the handler has run (the printing thread is slow to notice the interrupt, so the
    # process is still alive when that worker would create its temporary file and it keeps the file for 2 s)
    for _ in range(ctx.pick(12, 100)):
        files = rng.sample(inputs, 2)
        add("sigint", files, {"S4_VERIF_PLAN": "worker.start:1:0=250000;coord.recv:-1:*=700000;ntf.extracted:1:0=2000000"}, "ntf.registered", 0.05,
            phase="sigint:worker-starts-after-handler")
    # promptness: one worker silent for 8 s right after registering its temp file
    for _ in range(ctx.pick(6, 40)):
        add("sigint", pick_files(), {"S4_VERIF_PLAN": "ntf.registered:*:0=%d" % HOLD_US}, "ntf.registered", 1.0, phase="promptness")
    results = core.pmap(one, jobs, workers=16)
    lat = []
    for r in results:
        j = r["job"]
        info = {"argv": [j["s4"]] + j["files"], "env": j["extra_env"], "phase": j["phase"], "rc": r["rc"], "t_sig": r["t_sig"], "t_exit": r["t_exit"],
                "stderr": r["err"], "trace_tail": r["trace_tail"][-800:], "signal_sent": r["sent"], "event_seen": r["event_seen"]}
        if r["timed_out"]:
            if j["mode"] == "sigint" and r["sent"]:
                ctx.evaluated(1, (j["phase"], len(j["files"]), j["kinds"], j["conts"], "no-exit"))
                ctx.violation("C18|no-exit-after-sigint|%s" % j["phase"], "process still alive 60 s after SIGINT", info=info)
            else:
                ctx.inconc("watchdog")
            continue
        if j["mode"] == "sigint" and not r["sent"]:
            ctx.count("sigint runs where the process had already exited")
        if j["sig_after_event"] and r["event_seen"] is False:
            ctx.inconc("hook event %s never seen" % j["sig_after_event"])
            continue
        outcome = "left" if r["left"] else "clean"
        ctx.evaluated(1, (j["phase"], len(j["files"]), j["kinds"], j["conts"], outcome))
        ctx.count("runs:%s" % j["phase"])
        if r["left"]:
            sig = "C18|temp-file-left|%s" % j["phase"].split(":")[0]
            if j["mode"] == "sigint":
                # a run that ended before the signal could be sent is a normal run
                sig = "C18|temp-file-left|%s" % (j["phase"] if r["sent"] else "normal")
            ctx.violation(sig, "%d entries left in TMPDIR after exit (rc %s): %s" % (len(r["left"]), r["rc"], r["left"][:3]), info=info)
        if j["phase"] == "promptness" and r["sent"]:
            dt = r["t_exit"] - r["t_sig"]
            lat.append(round(dt, 2))
            if dt < 3.0:
                ctx.count("promptness: prompt")
            elif dt >= 7.0 - 1.0:
                # the signal came 1 s into the 8 s silence; exit only after the sleeper woke
                ctx.violation("C18|interrupt-waits-for-worker-progress", "exit %.1f s after SIGINT while a worker was silent for 8 s: the handler could not "
                              "run until that worker sent a datum" % dt, info=info)
            else:
                ctx.inconc("promptness-between-thresholds")
        elif j["mode"] == "sigint" and r["sent"] and j["phase"] != "promptness":
            dt = r["t_exit"] - r["t_sig"]
            lat.append(round(dt, 2))
        if len(ctx.samples) < 5 and j["mode"] == "sigint" and r["sent"] and j["phase"].startswith("sigint:") and "random" not in j["phase"]:
            ctx.sample({"phase": j["phase"], "sources": [os.path.basename(f) for f in j["files"]], "t_signal_s": round(r["t_sig"], 3), "t_exit_s": round(r["t_exit"], 3),
                        "rc": r["rc"], "left": r["left"], "trace_tail": r["trace_tail"].splitlines()[-4:]})
    ctx.extra["exit_latencies_after_sigint_s"] = {"n": len(lat), "max": max(lat) if lat else None, "median": sorted(lat)[len(lat) // 2] if lat else None}
