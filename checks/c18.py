"""C18 - no temporary files are left behind, even on Ctrl-C.

Oracle: a private TMPDIR per run must be empty once the process has exited
(waitpid), after a normal run and after SIGINT. Signal instants are chosen both
at random and *by phase*: the hooks (src/verif.rs) log ntf.created /
ntf.registered / ntf.extracted / print events and can hold a worker at such a
point (S4_VERIF_PLAN), so SIGINT is delivered while a worker provably sits
between creating a temporary file and registering it, during extraction, after
extraction, or while printing. Promptness is decided on logical order, not on a
stopwatch: a worker is planned to stay silent for 8 s; the run must end well
before that worker could have made progress (< 3 s after the signal = prompt;
>= 7 s = the interrupt waited for the worker; in between = inconclusive).
"""
import os
import signal
import subprocess
import time

from vlib import core, fixtures, gen

LEVEL = "fault_enumeration"

HOLD_US = 8_000_000


def make_inputs(ctx, rng, d):
    """compressed / archived journal and evtx files"""
    out = []
    srcs = [("evtx", p) for p in fixtures.evtxs() if "kernelpnp" in p] + [("journal", p) for p in fixtures.journals() if os.path.getsize(p) < 9_000_000]
    for kind, p in srcs:
        data = open(p, "rb").read()
        base = os.path.basename(p)
        for c in ("gz", "bz2", "xz", "lz4", "tar"):
            q = os.path.join(d, base + "." + c)
            if c == "tar":
                gen.write(q, gen.tar_bytes([("x/" + base, data, 1_600_000_000)]))
            else:
                kw = {"split": 65536, "stored": True} if c == "lz4" else ({"level": 1} if c in ("gz", "bz2") else {"preset": 0})
                gen.write(q, gen.contain(data, c, **kw))
            out.append((kind, c, q))
    return out


def leftovers(tmpdir):
    try:
        return sorted(os.listdir(tmpdir))
    except FileNotFoundError:
        return []


def wait_for_event(trace, event, timeout):
    t0 = time.monotonic()
    while time.monotonic() - t0 < timeout:
        try:
            with open(trace, "rb") as f:
                if ("\t" + event + "\t").encode() in f.read():
                    return True
        except FileNotFoundError:
            pass
        time.sleep(0.01)
    return False


def one(job):
    """job: dict(s4, files, extra_env, mode, sig_after_event, sig_delay, tmp, trace)"""
    s4 = job["s4"]
    tmp = job["tmp"]
    os.makedirs(tmp, exist_ok=True)
    env = core.base_env(tmpdir=tmp, extra=(dict(job["extra_env"], S4_VERIF_TRACE=job["trace"]) if job["trace"] else dict(job["extra_env"])))
    t0 = time.monotonic()
    closed = job.get("stdout_closed")
    blocked = job.get("stdout_blocked")
    p = subprocess.Popen([s4, "--color", "never", "-t=+00:00"] + job["files"], env=env, stdin=subprocess.DEVNULL,
                         stdout=(subprocess.PIPE if (closed is not None or blocked) else subprocess.DEVNULL), stderr=subprocess.PIPE, start_new_session=True)
    res = dict(job=job, sent=False, t_sig=None, t_exit=None, rc=None, timed_out=False, event_seen=None)
    try:
        if blocked:
            # nobody reads stdout (a pager that is not scrolled): the printing thread sits in write(2) on the full pipe when
            # the signal comes. The process must end without the reader's help.
            time.sleep(1.0)
            res["blocked_outcome"] = "ended-before-signal"
            if p.poll() is None:
                os.kill(p.pid, signal.SIGINT)
                res["sent"] = True
                res["t_sig"] = time.monotonic() - t0
                try:
                    p.wait(timeout=6)
                    res["blocked_outcome"] = "ended-by-itself"
                except subprocess.TimeoutExpired:
                    res["blocked_outcome"] = "still-alive-6s-after-signal"
            # now let the reader read on
            try:
                _, err = p.communicate(timeout=60)
            except subprocess.TimeoutExpired:
                res["blocked_outcome"] = "still-alive-after-the-reader-read-on"
                raise
        elif closed is not None:
            # the reader of stdout goes away (`s4 ... | head -1`): read `closed` bytes, then close the pipe; the process ends by itself
            try:
                if closed:
                    p.stdout.read(closed)
            finally:
                p.stdout.close()
            p.stdout = None
            _, err = p.communicate(timeout=180)
        elif job["mode"] == "normal":
            _, err = p.communicate(timeout=180)
        else:
            if job["sig_after_event"] == "tmpdir-not-empty":
                # no hooks in play: the temporary file itself is the observable
                tw = time.monotonic()
                while not leftovers(tmp) and time.monotonic() - tw < 30 and p.poll() is None:
                    time.sleep(0.005)
                res["event_seen"] = bool(leftovers(tmp))
            elif job["sig_after_event"]:
                res["event_seen"] = wait_for_event(job["trace"], job["sig_after_event"], 30)
            time.sleep(job["sig_delay"])
            if p.poll() is None:
                os.kill(p.pid, signal.SIGINT)
                res["sent"] = True
                res["t_sig"] = time.monotonic() - t0
            _, err = p.communicate(timeout=60)
    except subprocess.TimeoutExpired:
        res["timed_out"] = True
        try:
            os.killpg(p.pid, signal.SIGKILL)
        except ProcessLookupError:
            pass
        _, err = p.communicate()
    res["t_exit"] = time.monotonic() - t0
    res["rc"] = p.returncode
    res["err"] = err[-300:]
    res["left"] = leftovers(tmp)
    try:
        res["trace_tail"] = open(job["trace"], "rb").read()[-1500:].decode("utf-8", "replace") if job["trace"] else ""
    except FileNotFoundError:
        res["trace_tail"] = ""
    return res


def natural_promptness(ctx, s4, rng, d):
    """Promptness with no hook in play (no trace, no plan, no schedule: the hooks' own work inside the printing loop
    changes how its lock hand-over with the signal handler falls out). A source that takes seconds to extract by itself:
    an .evtx.xz of 24..48 MiB of hex digits (not a valid event log, which does not matter: the run is interrupted while the
    worker extracts it). Beside it 0..30 small sources that are done within milliseconds (not-evtx payloads that fail, or
    valid ones), so their temporary files are gone when the signal comes. Decided on order, not on a stopwatch: the
    uninterrupted run of the same argv takes T; the interrupted run (signal ~0.4 s after the temporary file appeared) must
    end before 0.6 T; ending at >= 0.9 T (and at least 1.5 s after the signal) means the interrupt waited for the worker; in
    between is inconclusive."""
    import lzma
    big = os.path.join(d, "big.evtx.xz")
    rnd = rng.getrandbits(64)
    import hashlib
    with open(big, "wb") as f:
        c = lzma.LZMACompressor(format=lzma.FORMAT_XZ, check=lzma.CHECK_CRC32, preset=0)
        for i in range(ctx.pick(20, 24)):
            # 2 MiB of hex digits per chunk, incompressible beyond the 2:1 of hex
            blk = b"".join(hashlib.sha256(b"%d-%d-%d" % (rnd, i, k)).hexdigest().encode() for k in range(1 << 15))
            f.write(c.compress(blk))
        f.write(c.flush())
    out = []
    smalls_bad, smalls_ok = [], []
    ok_src = [p for p in fixtures.evtxs() if "kernelpnp" in p]
    for i in range(30):
        smalls_bad.append(gen.write(os.path.join(d, "small-bad-%02d.evtx.gz" % i), gen.gz_bytes(b"this is not an evtx file %d\n" % i * 100)))
    if ok_src:
        okb = gen.gz_bytes(open(ok_src[0], "rb").read(), level=1)
        for i in range(30):
            smalls_ok.append(gen.write(os.path.join(d, "small-ok-%02d.evtx.gz" % i), okb))
    # a source that fails part way through its extraction beside sources that are still being extracted, then Ctrl-C:
    # whatever the failing source does to the shared temp-file list must not hide the others' files from the handler
    okd = open(ok_src[0], "rb").read() if ok_src else b"ElfFile\0" + bytes(5000)
    for j in (2, 3):
        try:
            os.link(big, os.path.join(d, "big%d.evtx.xz" % j))
        except OSError:
            import shutil
            shutil.copyfile(big, os.path.join(d, "big%d.evtx.xz" % j))
    bigs = [big, os.path.join(d, "big2.evtx.xz"), os.path.join(d, "big3.evtx.xz")]
    truncs = []
    for c in ("gz", "bz2", "xz", "lz4"):
        kw = {"split": 65536, "stored": True} if c == "lz4" else ({"level": 1} if c in ("gz", "bz2") else {"preset": 0})
        whole = gen.contain(okd, c, **kw)
        for frac in (0.5, 0.9):
            truncs.append(gen.write(os.path.join(d, "trunc-%s-%d.evtx.%s" % (c, int(frac * 100), c)), whole[:int(len(whole) * frac)]))
    for k in range(ctx.pick(8, 40)):
        files = [rng.choice(truncs)] + bigs
        if k % 4 == 3:
            rng.shuffle(files)
        wd = os.path.join(ctx.work, "nf%03d" % k)
        out.append(one(dict(s4=s4, files=files, kinds=("evtx",), conts=("mixed",), extra_env={}, mode="sigint", sig_after_event="tmpdir-not-empty",
                            sig_delay=rng.choice([0.3, 0.6, 1.0]), tmp=os.path.join(wd, "tmp"), trace=None, phase="sigint:failed-source-beside-extracting-ones")))
    variants = [("solo", [], [])]
    for k in ctx.pick([30], [3, 10, 30]):
        variants.append(("%d-failed-sources-done" % k, [], smalls_bad[:k]))
        if smalls_ok:
            variants.append(("%d-filtered-sources-done" % k, ["-a", "20400101T000000"], smalls_ok[:k]))
    n = 0
    for name, opts, smalls in variants:
        files = opts + smalls + [big]
        def mk(mode, ev=None, delay=0.0):
            nonlocal n
            wd = os.path.join(ctx.work, "np%03d" % n)
            n += 1
            return dict(s4=s4, files=files, kinds=("evtx",), conts=("gz", "xz") if smalls else ("xz",), extra_env={}, mode=mode, sig_after_event=ev,
                        sig_delay=delay, tmp=os.path.join(wd, "tmp"), trace=None, phase="promptness-natural:" + name)
        full = one(mk("normal"))
        for _ in range(ctx.pick(4, 10)):
            r = one(mk("sigint", "tmpdir-not-empty", 0.4))
            r["t_full"] = full["t_exit"]
            out.append(r)
    return out


def run(ctx):
    s4 = core.build_s4()
    rng = ctx.rng
    d = ctx.casedir("in")
    inputs = make_inputs(ctx, rng, d)
    ctx.rule = ("1..6 compressed / archived journal and evtx sources per run; normal runs under random and planned schedules (incl. a delay after each "
                "worker's last send) and with a stdout reader that goes away (| head); SIGINT at random instants and at hook-defined phases (before anything, temp file created but not registered, "
                "registered/extracting, extracted, printing); planned-silence promptness test; distinct = (mode/phase, number of sources, kinds, "
                "containers, outcome)")
    ctx.assumptions = ["SIGINT is delivered to the process as a terminal Ctrl-C would (kill(pid, SIGINT))",
                       "promptness thresholds: < 3 s prompt, >= 7 s waited for the planned 8 s silence, else inconclusive"]
    jobs = []
    n = 0

    def add(mode, files, extra_env=None, ev=None, delay=0.0, phase=None):
        nonlocal n
        wd = os.path.join(ctx.work, "r%05d" % n)
        n += 1
        jobs.append(dict(s4=s4, files=[f[2] for f in files], kinds=tuple(sorted({f[0] for f in files})), conts=tuple(sorted({f[1] for f in files})),
                         extra_env=extra_env or {}, mode=mode, sig_after_event=ev, sig_delay=delay, tmp=os.path.join(wd, "tmp"), trace=os.path.join(wd, "trace"),
                         phase=phase or mode))

    def pick_files():
        return rng.sample(inputs, rng.choice([1, 1, 2, 3, 4, 6]))

    # normal runs
    for _ in range(ctx.pick(120, 1500)):
        k = rng.random()
        if k < 0.3:
            env = {}
        elif k < 0.65:
            env = {"S4_VERIF_SCHED": "seed=%d,p=%s,max_us=%d" % (rng.randint(0, 1 << 30), rng.choice(["0.1", "0.5", "1.0"]), rng.choice([200, 2000, 20000]))}
        else:
            # main can return while a worker still holds its NamedTempFile: widen that window
            env = {"S4_VERIF_PLAN": "sent.FileSummary:*:*=%d" % rng.choice([2000, 20000, 100000])}
        add("normal", pick_files(), env, phase="normal:" + ("plain" if not env else list(env)[0][9:].lower()))
    # normal runs whose stdout reader goes away (from the start, after the first bytes, later)
    for _ in range(ctx.pick(40, 400)):
        add("normal", pick_files(), {}, phase="normal:stdout-closed")
        jobs[-1]["stdout_closed"] = rng.choice([0, 1, 80, 80, 4096, 70000])
    # SIGINT while nobody reads stdout
    for _ in range(ctx.pick(8, 60)):
        add("sigint", pick_files(), {}, phase="sigint:stdout-not-read")
        jobs[-1]["stdout_blocked"] = True
    # SIGINT at random instants
    for _ in range(ctx.pick(120, 1500)):
        add("sigint", pick_files(), {}, None, rng.choice([0.0, 0.002, 0.005, 0.01, 0.02, 0.05, 0.1, 0.2, 0.4]), phase="sigint:random-instant")
    # SIGINT at phases (the worker is held at the hook point for 1.5 s; the signal lands 0.3 s into the hold)
    for _ in range(ctx.pick(15, 150)):
        for point, phase in (("ntf.created", "sigint:created-not-registered"), ("ntf.registered", "sigint:registered-extracting"),
                             ("ntf.extracted", "sigint:extracted")):
            add("sigint", pick_files(), {"S4_VERIF_PLAN": "%s:*:0=1500000" % point}, point, 0.3, phase=phase)
        add("sigint", pick_files(), {"S4_VERIF_PLAN": "coord.print:-1:*=300000"}, "print", 0.1, phase="sigint:printing")
    # a worker that starts only after the handler has run (the printing thread is slow to notice the interrupt, so the
    # process is still alive when that worker would create its temporary file and it keeps the file for 2 s)
    for _ in range(ctx.pick(12, 100)):
        files = rng.sample(inputs, 2)
        add("sigint", files, {"S4_VERIF_PLAN": "worker.start:1:0=250000;coord.recv:-1:*=700000;ntf.extracted:1:0=2000000"}, "ntf.registered", 0.05,
            phase="sigint:worker-starts-after-handler")
    # promptness: one worker silent for 8 s right after registering its temp file
    for _ in range(ctx.pick(6, 40)):
        add("sigint", pick_files(), {"S4_VERIF_PLAN": "ntf.registered:*:0=%d" % HOLD_US}, "ntf.registered", 1.0, phase="promptness")
    results = core.pmap(one, jobs, workers=16)
    results += natural_promptness(ctx, s4, rng, d)
    lat = []
    for r in results:
        j = r["job"]
        info = {"argv": [j["s4"]] + j["files"], "env": j["extra_env"], "phase": j["phase"], "rc": r["rc"], "t_sig": r["t_sig"], "t_exit": r["t_exit"],
                "stderr": r["err"], "trace_tail": r["trace_tail"][-800:], "signal_sent": r["sent"], "event_seen": r["event_seen"]}
        if r["timed_out"]:
            if j["mode"] == "sigint" and r["sent"]:
                ctx.evaluated(1, (j["phase"], len(j["files"]), j["kinds"], j["conts"], "no-exit"))
                ctx.violation("C18|no-exit-after-sigint|%s" % j["phase"], "process still alive 60 s after SIGINT", info=info)
            else:
                ctx.inconc("watchdog")
            continue
        if j["mode"] == "sigint" and not r["sent"]:
            ctx.count("sigint runs where the process had already exited")
        if j["sig_after_event"] and r["event_seen"] is False:
            ctx.inconc("hook event %s never seen" % j["sig_after_event"])
            continue
        outcome = "left" if r["left"] else "clean"
        ctx.evaluated(1, (j["phase"], len(j["files"]), j["kinds"], j["conts"], outcome))
        ctx.count("runs:%s" % j["phase"])
        if r["left"]:
            sig = "C18|temp-file-left|%s" % j["phase"].split(":")[0]
            if j["mode"] == "sigint":
                # a run that ended before the signal could be sent is a normal run
                sig = "C18|temp-file-left|%s" % (j["phase"] if r["sent"] else "normal")
            ctx.violation(sig, "%d entries left in TMPDIR after exit (rc %s): %s" % (len(r["left"]), r["rc"], r["left"][:3]), info=info)
        if j.get("stdout_blocked"):
            ctx.count("stdout not read: %s" % r.get("blocked_outcome"))
            if r.get("blocked_outcome") in ("still-alive-6s-after-signal", "still-alive-after-the-reader-read-on"):
                ctx.violation("C18|interrupt-not-acted-upon-while-stdout-is-not-read", "SIGINT at %.2f s with the printing thread blocked on a full stdout pipe: %s" % (
                    r["t_sig"], r["blocked_outcome"]), info=info)
        if j["phase"] == "promptness" and r["sent"]:
            dt = r["t_exit"] - r["t_sig"]
            lat.append(round(dt, 2))
            if dt < 3.0:
                ctx.count("promptness: prompt")
            elif dt >= 7.0 - 1.0:
                # the signal came 1 s into the 8 s silence; exit only after the sleeper woke
                ctx.violation("C18|interrupt-waits-for-worker-progress", "exit %.1f s after SIGINT while a worker was silent for 8 s: the handler could not "
                              "run until that worker sent a datum" % dt, info=info)
            else:
                ctx.inconc("promptness-between-thresholds")
        elif j["phase"].startswith("promptness-natural") and r["sent"]:
            tf = r["t_full"]
            info["uninterrupted_run_s"] = round(tf, 2)
            lat.append(round(r["t_exit"] - r["t_sig"], 2))
            if tf < 2.0 or r["t_sig"] > 0.5 * tf:
                ctx.inconc("promptness-natural: source too fast to tell")
            elif r["t_exit"] < 0.6 * tf:
                ctx.count("promptness (no hooks): prompt")
            elif r["t_exit"] >= 0.9 * tf and r["t_exit"] - r["t_sig"] >= 1.5:
                ctx.violation("C18|interrupt-not-acted-upon-while-a-worker-extracts|%s" % ("solo" if j["phase"].endswith("solo") else "beside-finished-sources"),
                              "SIGINT at %.2f s, exit at %.2f s; the uninterrupted run takes %.2f s (%s)" % (r["t_sig"], r["t_exit"], tf, j["phase"]), info=info)
            else:
                ctx.inconc("promptness-natural-between-thresholds")
        elif j["mode"] == "sigint" and r["sent"] and j["phase"] != "promptness":
            dt = r["t_exit"] - r["t_sig"]
            lat.append(round(dt, 2))
        if len(ctx.samples) < 5 and j["mode"] == "sigint" and r["sent"] and j["phase"].startswith("sigint:") and "random" not in j["phase"]:
            ctx.sample({"phase": j["phase"], "sources": [os.path.basename(f) for f in j["files"]], "t_signal_s": round(r["t_sig"], 3), "t_exit_s": round(r["t_exit"], 3),
                        "rc": r["rc"], "left": r["left"], "trace_tail": r["trace_tail"].splitlines()[-4:]})
    ctx.extra["exit_latencies_after_sigint_s"] = {"n": len(lat), "max": max(lat) if lat else None, "median": sorted(lat)[len(lat) // 2] if lat else None}
