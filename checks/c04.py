"""C04 - timestamps are interpreted as the instant they denote.

Oracle: the integer instant chosen *before* rendering. Each file holds one
notation (vlib/dtcat.py, written from the documented forms, independent of
datetime.rs) in one zone spelling, fraction length, letter case and -t value;
s4 prints it with `--prepend-utc -d %Y%m%dT%H%M%S%.9f`; the prefix of every line
must be the instant the generator rendered (zone-less notations in the -t zone,
ambiguous abbreviations fall back to -t, epoch forms are UTC).
"""
import os
import re

from vlib import core, dtcat, gen

LEVEL = "exploration"

PFX = re.compile(rb"^(\d{4})(\d\d)(\d\d)T(\d\d)(\d\d)(\d\d)\.(\d{9}):(.*)$")
TOK = re.compile(rb" K(\d+)K")


def days(ctx, rng):
    """(y, m, d) list: quick = boundary days of 6 years + samples; thorough = every day 1970-01-02..2099-12-30"""
    out = []
    if ctx.quick:
        for y in (1970, 1971, 1999, 2000, 2001, 2004, 2023, 2024, 2037, 2038, 2039, 2064, 2065, 2066, 2096, 2099):
            for m in range(1, 13):
                last = 31 if m in (1, 3, 5, 7, 8, 10, 12) else (30 if m != 2 else (29 if (y % 4 == 0 and (y % 100 != 0 or y % 400 == 0)) else 28))
                for d in (1, 9, 10, last):
                    if (y, m, d) in ((1970, 1, 1), (2099, 12, 31)):
                        continue
                    out.append((y, m, d))
        for _ in range(150):
            out.append((rng.randint(1970, 2099), rng.randint(1, 12), rng.randint(2, 28)))
    else:
        ns = gen.instant(1970, 1, 2)
        end = gen.instant(2099, 12, 30)
        while ns <= end:
            c = gen.civil(ns)
            out.append((c[0], c[1], c[2]))
            ns += 86400 * gen.NS
    return out


SECONDS = [(0, 0, 0), (9, 9, 9), (11, 59, 59), (12, 0, 0), (23, 59, 59), (0, 59, 59), (12, 34, 56)]
OFFSETS_15 = list(range(-12 * 60, 14 * 60 + 1, 15))


def ambiguity(s4):
    """which abbreviations of the catalogue the program itself treats as unambiguous (accepted by -t)"""
    d = {}
    for ab in sorted(dtcat.ABBR):
        r = core.run([s4, "--color", "never", "-t", ab, "/nonexistent-file"], core.base_env(), timeout=30)
        d[ab] = b"invalid value" not in r.err
        if not d[ab] and b"ambiguous timezone" not in r.err:
            raise core.HarnessError("catalogue abbreviation %s is unknown to the program: %r" % (ab, r.err[:200]))
    return d


def make_file(ctx, rng, t, zstyle, fd, case, tz_min, daylist, unamb, path):
    lines, want = [], []
    for i, (y, m, d) in enumerate(daylist):
        hh, mm, ss = rng.choice(SECONDS) if rng.random() < 0.6 else (rng.randint(0, 23), rng.randint(0, 59), rng.randint(0, 59))
        nanos = rng.choice([0, 1, 999_999_999, 500_000_000, rng.randint(0, 999_999_999)])
        ztxt, off = None, tz_min
        if t.zone == "num":
            off = rng.choice(OFFSETS_15) if zstyle != "hh" else rng.choice(range(-12, 15)) * 60
            ztxt = dtcat.zs(off, zstyle)
        elif t.zone == "abbr":
            ab = rng.choice(sorted(dtcat.ABBR))
            ztxt = {"title": ab, "upper": ab, "lower": ab}[case]
            off = dtcat.ABBR[ab] if unamb.get(ab) else tz_min
        elif t.zone in ("z", "epoch"):
            off, ztxt = 0, "Z"
        render_off = off if not (t.zone == "abbr" and not unamb.get(ztxt)) else tz_min
        # civil fields are what the text shows; the instant follows from the zone the text must be read in
        ns = gen.trunc(gen.instant(y, m, d, hh, mm, ss, nanos, 0) - render_off * 60 * gen.NS, fd)
        if ns < gen.NS * 86400 or ns > gen.instant(2099, 12, 31):
            continue
        k = len(lines)
        lines.append(dtcat.render_line(t, ns, render_off, ztxt, fd, case, tail=" K%dK body" % k))
        want.append(ns)
    gen.write(path, ("\n".join(lines) + "\n").encode())
    return lines, want


def job(args):
    s4, path, tz_min = args
    return core.run([s4, "--color", "never", "-t=" + gen.off_str(tz_min), "-u", "-d", "%Y%m%dT%H%M%S%.9f", "-s", path],
                    core.base_env(tz=("UTC" if tz_min == 0 else "<%s>%s" % (gen.off_str(tz_min, colon=False), gen.off_str(-tz_min)))), timeout=900)


def tzdata_reference():
    """zone abbreviation -> minutes east, for the alphabetic abbreviations that the IANA tz database (python zoneinfo) uses
    with exactly one offset in 2012..2025 (independent of the program's own table)"""
    import collections
    import datetime
    import zoneinfo
    ref = collections.defaultdict(set)
    for zn in sorted(zoneinfo.available_timezones()):
        try:
            z = zoneinfo.ZoneInfo(zn)
        except Exception:
            continue
        for y in range(2012, 2026):
            for mo in (1, 4, 7, 10):
                dt = datetime.datetime(y, mo, 15, 12, 0, tzinfo=z)
                ab = dt.tzname()
                if ab and ab.isalpha() and ab.isascii() and ab != "LMT":
                    ref[ab].add(int(dt.utcoffset().total_seconds() // 60))
    up = collections.defaultdict(set)
    for k, v in ref.items():
        up[k.upper()] |= v
    return {k: next(iter(v)) for k, v in up.items() if len(v) == 1}


def abbr_probe(args):
    s4, path = args
    out = []
    for t in ("+00:00", "+05:00"):
        r = core.run([s4, "--color", "never", "-t=" + t, "-u", "-d", "%Y%m%dT%H%M%S", path], core.base_env(), timeout=60)
        m = re.match(rb"^(\d{4})(\d\d)(\d\d)T(\d\d)(\d\d)(\d\d):", r.out)
        out.append(gen.instant(*(int(x) for x in m.groups())) // gen.NS if m else None)
    return out


def abbr_sweep(ctx, s4):
    """Every zone abbreviation, in both letter cases: (a) where the tz database knows the abbreviation with a single offset, a
    timestamp carrying it must be read at that offset; (b) the upper- and lower-case spelling of a name must be read alike.
    'Honoured' = the instant does not depend on -t. The names (inputs, not expectations) are the tz database's, the
    catalogue's and those listed in the program's table."""
    ref = tzdata_reference()
    names = set(ref) | set(dtcat.ABBR)
    try:
        src = open(os.path.join(core.REPO, "src", "data", "datetime.rs"), encoding="utf-8").read()
        i = src.index("pub static MAP_TZZ_TO_TZz")
        names |= {n.upper() for n in re.findall(r'^\s*"([A-Za-z]+)"\s*=>', src[i:src.index("};", i)], re.M)}
    except (OSError, ValueError):
        ctx.count("abbreviation sweep: program table not found, names from tz database and catalogue only")
    names = sorted(n for n in names if n.isalpha() and n not in ("Z",))
    d = ctx.casedir("abbr")
    jobs, meta = [], []
    for n in names:
        for spell in (n, n.lower()):
            p = gen.write(os.path.join(d, "%s-%s.log" % (spell, "u" if spell == n else "l")),
                          ("2024-01-15 12:00:00 %s S0M0 hello\n2024-01-15 12:00:01 %s S0M1 world\n" % (spell, spell)).encode())
            jobs.append((s4, p))
            meta.append((n, spell, p))
    civil = gen.instant(2024, 1, 15, 12, 0, 0) // gen.NS
    seen = {}
    for (n, spell, p), (a, b) in zip(meta, core.pmap(abbr_probe, jobs)):
        honoured = a is not None and a == b
        seen[spell] = (a, b)
        ctx.evaluated(1, ("abbr", spell))
        if honoured:
            ctx.count("abbreviation sweep: spellings honoured")
            if n in ref:
                ctx.count("abbreviation sweep: compared with the tz database")
                if civil - a != ref[n] * 60:
                    ctx.violation("C04|abbreviation-offset-differs-from-tz-database|%s" % spell, "'2024-01-15 12:00:00 %s' read as UTC%+d min, the tz database has %s at %+d min" % (
                        spell, (civil - a) // 60, n, ref[n]), files={"input.log": open(p, "rb").read()}, info={"argv": [s4, "-t=+00:00", "-u", p]})
        else:
            ctx.count("abbreviation sweep: spellings not honoured (fallback zone used or line not recognised)")
    for n in names:
        if seen.get(n) != seen.get(n.lower()):
            ctx.violation("C04|abbreviation-case-variants-disagree|%s" % n, "%s read as %s, %s as %s (instants under -t +00:00 / +05:00)" % (
                n, seen.get(n), n.lower(), seen.get(n.lower())), info={"name": n})
    ctx.extra["abbreviations_in_tz_database_unambiguous"] = len(ref)
    ctx.extra["abbreviation_names_swept"] = len(names)


def run(ctx):
    s4 = core.build_s4()
    rng = ctx.rng
    abbr_sweep(ctx, s4)
    unamb = ambiguity(s4)
    daylist = days(ctx, rng)
    ctx.rule = ("one file per (notation template x zone spelling x fraction digits x letter case x -t value); %d days per file (%s) x times of day "
                "incl. 00:00:00/11:59:59/12:00:00/23:59:59 x UTC offsets in 15-minute steps x %d zone abbreviations; every line's "
                "--prepend-utc instant compared with the generator's; distinct = (template, zone style, fraction digits, case, -t)") % (
                    len(daylist), "boundary days of 16 years + samples" if ctx.quick else "every day 1970-01-02..2099-12-30", len(dtcat.ABBR))
    ctx.assumptions = ["catalogue templates are documented notations (README 'formal datetime formats'); python integer calendar arithmetic is trusted",
                       "abbreviations the program rejects for -t are treated as ambiguous: expected instant uses the -t zone"]
    ctx.extra["abbreviations_unambiguous"] = sorted(k for k, v in unamb.items() if v)
    ctx.extra["abbreviations_ambiguous_per_program"] = sorted(k for k, v in unamb.items() if not v)
    jobs, meta = [], []
    d = ctx.casedir("files")
    n = 0
    for t in dtcat.TEMPLATES:
        named = any(k in t.name for k in ("rfc3164", "rfc2822", "ctime", "apache"))
        for zstyle in dtcat.zstyles_for(t):
            fracs = dtcat.fracs_for(t)
            if ctx.quick and len(fracs) > 4:
                fracs = (0, 3, 6, 9, rng.choice([1, 2, 4, 5, 7, 8]), 8)
            for fd in fracs:
                for case in (("title", "upper", "lower") if named else ("title",)):
                    for tz_min in ((0, -480, 330, 765) if (t.zone in ("none", "abbr", "epoch") or not ctx.quick) else (rng.choice([0, -480, 330]),)):
                        # thorough: full day list once per template/style, sampled for the other axes
                        dl = daylist if (not ctx.quick and fd in (0, 9) and case == "title" and tz_min == 0) else (
                            daylist if ctx.quick else rng.sample(daylist, 3000))
                        if ctx.quick and not (fd in (0, 9) and case == "title"):
                            dl = rng.sample(daylist, 250)
                        path = os.path.join(d, "f%05d.log" % n)
                        n += 1
                        lines, want = make_file(ctx, rng, t, zstyle, fd, case, tz_min, dl, unamb, path)
                        jobs.append((s4, path, tz_min))
                        meta.append((t, zstyle, fd, case, tz_min, lines, want, path))
    for (t, zstyle, fd, case, tz_min, lines, want, path), r in zip(meta, core.pmap(job, jobs)):
        key = (t.name, zstyle, fd, case, tz_min)
        if r.timed_out:
            # a watchdog firing on a text file of a few thousand lines is a hang, witnessed by the file itself
            ctx.violation("C04|hang|%s" % t.name, "s4 did not finish within 900 s on %d lines of %s" % (len(lines), t.name), files={"input.log": open(path, "rb").read()},
                          info={"argv": r.argv, "env": r.env})
            continue
        ctx.evaluated(len(lines), key)
        ctx.count("lines checked", len(lines))
        ctx.count("template:%s" % t.name, len(lines))
        got = {}
        for ln in r.out.split(b"\n"):
            m = PFX.match(ln)
            if not m:
                continue
            k = TOK.search(m.group(8))
            if k:
                y, mo, dd, hh, mi, ss, fr = (int(x) for x in m.groups()[:7])
                got[int(k.group(1))] = gen.instant(y, mo, dd, hh, mi, ss, fr)
        pat = None
        for ln in r.err.decode("utf-8", "replace").splitlines():
            if ln.strip().startswith("@["):
                pat = ln.strip().split(" ")[0]
        if pat:
            ctx.extra.setdefault("pattern_index_by_template", {}).setdefault(t.name, [])
            if pat not in ctx.extra["pattern_index_by_template"][t.name]:
                ctx.extra["pattern_index_by_template"][t.name].append(pat)
        bad = [(i, want[i], got.get(i)) for i in range(len(lines)) if got.get(i) != want[i]]
        if not bad:
            if len(ctx.samples) < 6 and rng.random() < 0.05:
                ctx.sample({"template": t.name, "zone_style": zstyle, "fraction_digits": fd, "case": case, "-t": gen.off_str(tz_min),
                            "lines": len(lines), "first_line": lines[0], "pattern": pat})
            continue
        # classify each distinct failure class once per file
        seen = set()
        # a file that *starts* with epochs outside the recognised range is rejected as a whole (no message is found in block
        # zero), so its in-range lines are not recognised either: same known finding
        first_out = t.zone == "epoch" and want and not (dtcat.EPOCH_MIN <= want[0] // gen.NS <= dtcat.EPOCH_MAX)
        for i, w, g in bad:
            sec = w // gen.NS
            if t.zone == "epoch" and (not (dtcat.EPOCH_MIN <= sec <= dtcat.EPOCH_MAX) or (first_out and g is None)):
                sig = "C04|epoch-outside-recognised-range|%s" % t.name
            elif g is None:
                sig = "C04|line-not-recognised|%s|%s|frac%d|%s" % (t.name, zstyle, fd, case)
            else:
                delta = g - w
                if delta % (900 * gen.NS) == 0:
                    how = "off-by-%+dmin" % (delta // (60 * gen.NS))
                elif abs(delta) < gen.NS:
                    how = "fraction-differs"
                elif abs(delta) % (86400 * gen.NS) == 0:
                    how = "off-by-%+dd" % (delta // (86400 * gen.NS))
                else:
                    how = "other"
                if how.startswith("off-by") and "min" in how and len(seen) > 6:
                    continue
                sig = "C04|wrong-instant|%s|%s|frac%d|%s|%s" % (t.name, zstyle, fd, case, how)
            if sig in seen:
                continue
            seen.add(sig)
            ctx.violation(sig, "line %r: expected %d got %s" % (lines[i], w, g), files={"input.log": open(path, "rb").read(), "observed.stdout": r.out[:200000]},
                          info={"argv": r.argv, "env": r.env, "line": lines[i], "expected_ns": w, "got_ns": g, "failing_lines_in_file": len(bad), "pattern": pat})
