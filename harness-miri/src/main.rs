//! Miri target: the `unsafe` decoding of fixed-struct records (pointer casts,
//! `read_unaligned`, `CStr::from_ptr`) driven with in-memory buffers only (no
//! file system, no FFI), one mode and layout per process so that one report of
//! undefined behaviour does not hide the rest.
//!
//!   s4miri <mode> <layout index 0..15> <seed> <count> <fill>
//!     mode: decode  = buffer_to_fixedstructptr + FixedStruct::new + as_bytes + tv_pair_from_buffer at every alignment
//!           score   = FixedStruct::score_fixedstruct on the decoded pointer
//!     fill: nul     = string fields end with NUL (records as real systems write them)
//!           full    = every byte non-NUL (string fields filled to their width)
//!           random  = arbitrary bytes
use s4lib::data::fixedstruct::{buffer_to_fixedstructptr, FixedStruct, FixedStructType, InfoAsBytes, ENTRY_SZ_MAX};

const TYPES: [FixedStructType; 16] = [
    FixedStructType::Fs_Freebsd_x8664_Utmpx,
    FixedStructType::Fs_Linux_Arm64Aarch64_Lastlog,
    FixedStructType::Fs_Linux_Arm64Aarch64_Utmpx,
    FixedStructType::Fs_Linux_x86_Acct,
    FixedStructType::Fs_Linux_x86_Acct_v3,
    FixedStructType::Fs_Linux_x86_Lastlog,
    FixedStructType::Fs_Linux_x86_Utmpx,
    FixedStructType::Fs_Netbsd_x8632_Acct,
    FixedStructType::Fs_Netbsd_x8632_Lastlogx,
    FixedStructType::Fs_Netbsd_x8632_Utmpx,
    FixedStructType::Fs_Netbsd_x8664_Lastlog,
    FixedStructType::Fs_Netbsd_x8664_Lastlogx,
    FixedStructType::Fs_Netbsd_x8664_Utmp,
    FixedStructType::Fs_Netbsd_x8664_Utmpx,
    FixedStructType::Fs_Openbsd_x86_Lastlog,
    FixedStructType::Fs_Openbsd_x86_Utmp,
];

struct Rng(u64);
impl Rng {
    fn next(&mut self) -> u64 {
        self.0 = self.0.wrapping_add(0x9E37_79B9_7F4A_7C15);
        let mut z = self.0;
        z = (z ^ (z >> 30)).wrapping_mul(0xBF58_476D_1CE4_E5B9);
        z = (z ^ (z >> 27)).wrapping_mul(0x94D0_49BB_1331_11EB);
        z ^ (z >> 31)
    }
}

/// `lines <file> <bsz_lo> <bsz_hi>`: LineReader (block reading + line assembly, no regex) over a small plain file at
/// every block size, forward walk compared with a reference splitter
fn lines(a: &[String]) {
    use s4lib::common::{FileType, FileTypeArchive, FileTypeTextEncoding, ResultS3};
    use s4lib::readers::linereader::LineReader;
    let path = &a[2];
    let lo: u64 = a[3].parse().unwrap();
    let hi: u64 = a[4].parse().unwrap();
    let data = std::fs::read(path).unwrap();
    let ft = FileType::Text { archival_type: FileTypeArchive::Normal, encoding_type: FileTypeTextEncoding::Utf8Ascii };
    let mut queries = 0usize;
    let mut bad = 0usize;
    for bsz in lo..=hi {
        let mut lr = LineReader::new(path.clone(), ft, bsz).unwrap();
        let mut fo = 0usize;
        while fo < data.len() {
            let end = match data[fo..].iter().position(|b| *b == b'\n') {
                Some(i) => fo + i + 1,
                None => data.len(),
            };
            queries += 1;
            match lr.find_line(fo as u64) {
                ResultS3::Found((fo_next, linep)) => {
                    if fo_next as usize != end || linep.fileoffset_begin() as usize != fo || linep.len() != end - fo {
                        bad += 1;
                    }
                }
                _ => bad += 1,
            }
            fo = end;
        }
    }
    println!("lines bytes {} blocksz {}..{} queries {} mismatches {}", data.len(), lo, hi, queries, bad);
    if bad != 0 {
        std::process::exit(3);
    }
}

fn main() {
    let a: Vec<String> = std::env::args().collect();
    let mode = a[1].as_str();
    if mode == "lines" {
        lines(&a);
        return;
    }
    let ti: usize = a[2].parse().unwrap();
    let seed: u64 = a[3].parse().unwrap();
    let count: usize = a[4].parse().unwrap();
    let fill = a[5].as_str();
    let t = TYPES[ti];
    let sz = t.size();
    let tz = chrono::FixedOffset::east_opt(0).unwrap();
    let mut rng = Rng(seed ^ (ti as u64) << 32);
    let mut decoded = 0usize;
    let mut printed = 0usize;
    for n in 0..count {
        // a record inside a larger buffer at a varying (mis)alignment
        let lead = n % 9;
        let mut buf = vec![0u8; lead + sz + 8];
        for b in buf[lead..lead + sz].iter_mut() {
            *b = match fill {
                "full" => 0x21 + (rng.next() % 0x5d) as u8,
                "random" => rng.next() as u8,
                _ => {
                    // mostly NUL with short printable runs: what utmp/lastlog/acct files look like
                    if rng.next() % 5 == 0 { 0x61 + (rng.next() % 26) as u8 } else { 0 }
                }
            };
        }
        // a plausible time value so that FixedStruct::new gets past the time checks
        let tvo = t.offset_tv();
        let secs: u32 = 1_690_000_000 + n as u32;
        buf[lead + tvo..lead + tvo + 4].copy_from_slice(&secs.to_le_bytes());
        let rec = &buf[lead..lead + sz];
        match mode {
            "decode" => {
                let _ = t.tv_pair_from_buffer(&rec[tvo..tvo + t.size_tv()]);
                if let Some(_p) = buffer_to_fixedstructptr(rec, t) {
                    decoded += 1;
                }
                if let Ok(fs) = FixedStruct::new(0, &tz, rec, t) {
                    let mut out = [0u8; ENTRY_SZ_MAX * 2];
                    if let InfoAsBytes::Ok(at, _, _) = fs.as_bytes(&mut out) {
                        printed += at;
                    }
                }
            }
            "score" => {
                if let Some(p) = buffer_to_fixedstructptr(rec, t) {
                    decoded += 1;
                    let s = FixedStruct::score_fixedstruct(&p, 0);
                    printed = printed.wrapping_add(s as usize);
                }
            }
            _ => panic!("mode"),
        }
    }
    println!("{} {:?} size {} fill {} records {} decoded {} acc {}", mode, t, sz, fill, count, decoded, printed);
}
