#!/bin/sh
# Builds the framework's binaries from files on disk (offline). Each check
# rebuilds incrementally anyway; this only warms the caches.
set -e
cd "$(dirname "$0")"
python3 - <<'PY'
import sys
sys.path.insert(0, '.')
from vlib import core
print(core.build_s4())
import os
if os.path.exists('harness/Cargo.toml'):
    print(core.build_harness())
PY
